#!/usr/bin/env python3-vt
"""debug helper: ./dbg.py <harness> [k=v ...] [--paths N]  -- explores single-threaded, prints stats"""
import sys, time
sys.setrecursionlimit(20000)
from mirsym import build, driver
from mirsym.interp import Inconclusive
paths = build.ensure(need_native=False)
it, _ = driver.load(paths)
fn = sys.argv[1]
maxp = None
for a in sys.argv[2:]:
    if a.startswith('--paths='): maxp = int(a.split('=')[1])
    elif '=' in a:
        k, v = a.split('='); it.params[k] = int(v)
h = driver.make_entry(it, fn)
t = time.time()
try:
    viol = it.explore(h, max_paths=maxp)
except Inconclusive as e:
    print('INCONCLUSIVE', e, getattr(it, 'cur_stmt', None)); viol = []
except Exception as e:
    import traceback; traceback.print_exc(limit=-4)
    print('ENGINE ERROR at', getattr(it, 'cur_stmt', None)); viol = []
s = it.stats
print('paths', s['paths'], 'infeasible', s['infeasible'], 'queries', s['solver_calls'], 'stmts', s['stmts'], 'time %.1f' % (time.time() - t))
print('cover', it.cover_hits)
for n, c in sorted(s['funcs'].items(), key=lambda x: -x[1])[:25]: print('  body', c, n)
for n, c in sorted(s['models'].items(), key=lambda x: -x[1])[:25]: print('  model', c, n[:120])
seen = set()
for v in viol:
    if (v.kind, v.msg) in seen: continue
    seen.add((v.kind, v.msg))
    print('VIOLATION', v.kind, v.msg, v.model)
