use litep2p_verif_harness::{verif_rt::Nondet, *};
fn main() {
    let args: Vec<String> = std::env::args().collect();
    let vals: Vec<u64> = args[2..].iter().map(|s| s.parse().unwrap()).collect();
    let mut nd = Nondet::new(vals);
    // futures built with tokio::time (timeouts) need a runtime context to be constructed and polled; no timer ever fires
    // because the runtime is never driven
    let runtime = tokio::runtime::Builder::new_current_thread().enable_time().build().expect("runtime");
    let _guard = runtime.enter();
    match args[1].as_str() {
        "c05_peerstate_closed" => c05_peerstate_closed(&mut nd),
        "c05_manager_established" => c05_manager_established(&mut nd),
        "c15_response_step" => c15_response_step(&mut nd),
        "c15_find_node_step" => c15_find_node_step(&mut nd),
        "c15_get_record" => c15_get_record(&mut nd),
        "c15_get_providers" => c15_get_providers(&mut nd),
        "c15_find_node" => c15_find_node(&mut nd),
        "c04_identity_receive" => c04_identity_receive(&mut nd),
        "c02_noise_attacks" => c02_noise_attacks(&mut nd),
        "c02_noise_stream" => c02_noise_stream(&mut nd),
        "c01_identity_binding" => c01_identity_binding(&mut nd),
        "c07_closed_report" => c07_closed_report(&mut nd),
        "c08_service_events" => c08_service_events(&mut nd),
        "c13_inbound_bound" => c13_inbound_bound(&mut nd),
        "c13_request_ledger" => c13_request_ledger(&mut nd),
        "c03_stream_negotiation" => c03_stream_negotiation(&mut nd),
        "c03_webrtc_negotiation" => c03_webrtc_negotiation(&mut nd),
        "c19_length_delimited" => c19_length_delimited(&mut nd),
        "c04_varint_receive" => c04_varint_receive(&mut nd),
        "c04_sink_flush" => c04_sink_flush(&mut nd),
        "c09_keep_alive" => c09_keep_alive(&mut nd),
        "c11_notification_protocol" => c11_notification_protocol(&mut nd),
        "c19_kademlia_message" => c19_kademlia_message(&mut nd),
        "c13_request_flight" => c13_request_flight(&mut nd),
        "c20_message_received" => c20_message_received(&mut nd),
        "c20_send_response" => c20_send_response(&mut nd),
        "c16_executor_request" => c16_executor_request(&mut nd),
        "c12_notification_stream" => c12_notification_stream(&mut nd),
        "c04_frame_sequence" => c04_frame_sequence(&mut nd),
        "c10_store_insert" => c10_store_insert(&mut nd),
        "c10_store_addresses" => c10_store_addresses(&mut nd),
        "c05_address_shapes" => c05_address_shapes(&mut nd),
        "c05_manager_steps" => c05_manager_steps(&mut nd),
        "c05_manager_loop" => c05_manager_loop(&mut nd),
        "c05_dial_address" => c05_dial_address(&mut nd),
        "c16_dial_ledger" => c16_dial_ledger(&mut nd),
        "c16_put_to_targets" => c16_put_to_targets(&mut nd),
        "c14_table_ops" => c14_table_ops(&mut nd),
        "c14_bucket_full" => c14_bucket_full(&mut nd),
        "c20_block_cid" => c20_block_cid(&mut nd),
        "c20_batching" => c20_batching(&mut nd),
        "c18_multihash" => c18_multihash(&mut nd),
        "c18_key_blob" => c18_key_blob(&mut nd),
        "c18_from_bytes" => c18_from_bytes(&mut nd),
        "c17_store_providers" => c17_store_providers(&mut nd),
        "c17_store_records" => c17_store_records(&mut nd),
        "c19_multistream_decode" => c19_multistream_decode(&mut nd),
        other => panic!("unknown harness {other}"),
    }
    println!("HARNESS-OK");
}
