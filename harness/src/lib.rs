pub mod verif_rt;
use verif_rt::{assume, check, cover, param, Nondet};

use litep2p::transport::manager::limits::ConnectionLimitsConfig;
use litep2p::transport::manager::peer_state::{ConnectionRecord, PeerState, SecondaryOrDialing};
use litep2p::transport::manager::verif_hooks as hooks;
use litep2p::transport::manager::TransportManagerBuilder;
use litep2p::transport::Endpoint;
use litep2p::types::ConnectionId;

fn rec(nd: &mut Nondet) -> ConnectionRecord {
    ConnectionRecord { address: nd.multiaddr("addr"), connection_id: ConnectionId::from(nd.usize("cid")) }
}

fn any_state(nd: &mut Nondet) -> PeerState {
    match nd.choose("state", 6) {
        0 => PeerState::Disconnected { dial_record: None },
        1 => PeerState::Disconnected { dial_record: Some(rec(nd)) },
        2 => PeerState::Dialing { dial_record: rec(nd) },
        3 => PeerState::Connected { record: rec(nd), secondary: None },
        4 => PeerState::Connected { record: rec(nd), secondary: Some(SecondaryOrDialing::Dialing(rec(nd))) },
        _ => PeerState::Connected { record: rec(nd), secondary: Some(SecondaryOrDialing::Secondary(rec(nd))) },
    }
}

/// ids of established connections / of the outstanding dial, as the reference model sees them
fn established(st: &PeerState) -> Vec<ConnectionId> {
    match st {
        PeerState::Connected { record, secondary: Some(SecondaryOrDialing::Secondary(s)) } => vec![record.connection_id, s.connection_id],
        PeerState::Connected { record, .. } => vec![record.connection_id],
        _ => vec![],
    }
}
fn dial_id(st: &PeerState) -> Option<ConnectionId> {
    match st {
        PeerState::Dialing { dial_record } => Some(dial_record.connection_id),
        PeerState::Disconnected { dial_record: Some(d) } => Some(d.connection_id),
        PeerState::Connected { secondary: Some(SecondaryOrDialing::Dialing(d)), .. } => Some(d.connection_id),
        _ => None,
    }
}
fn well_formed(st: &PeerState) -> bool {
    let est = established(st);
    let distinct = est.len() < 2 || est[0] != est[1];
    let dial_fresh = match dial_id(st) { Some(d) => !est.contains(&d), None => true };
    distinct && dial_fresh
}

/// C05/C06 kernel: one step of PeerState::on_connection_closed against a reference model.
pub fn c05_peerstate_closed(nd: &mut Nondet) {
    let mut st = any_state(nd);
    assume(well_formed(&st));
    let pre = st.clone();
    let id = ConnectionId::from(nd.usize("closed_id"));
    let reported = st.on_connection_closed(id);
    let was = established(&pre);
    let now = established(&st);
    // reference: remove id from the established list; report iff the list became empty
    let expect: Vec<ConnectionId> = was.iter().copied().filter(|c| *c != id).collect();
    check("closed.established-set", now == expect);
    check("closed.report-iff-last", reported == (!was.is_empty() && expect.is_empty()));
    check("closed.dial-record-kept", dial_id(&st) == dial_id(&pre));
    if reported { cover("closed.reported"); } else { cover("closed.silent"); }
}

/// C05 kernel: one step of TransportManager::on_connection_established from an arbitrary state.
pub fn c05_manager_established(nd: &mut Nondet) {
    let max_in = match nd.choose("max_in", 3) { 0 => None, k => Some(k as usize) };
    let max_out = match nd.choose("max_out", 3) { 0 => None, k => Some(k as usize) };
    let mut manager = TransportManagerBuilder::new()
        .with_connection_limits_config(
            ConnectionLimitsConfig::default().max_incoming_connections(max_in).max_outgoing_connections(max_out),
        )
        .build();
    let peer = nd.peer_id("peer");
    let st = any_state(nd);
    assume(well_formed(&st));
    // representation invariant under test: the outstanding dial id is routable
    if let Some(d) = dial_id(&st) { hooks::insert_pending(&mut manager, d, peer); }
    hooks::set_peer_state(&mut manager, peer, st.clone());
    // some already counted connections (ids distinct from everything else)
    let ev_id = ConnectionId::from(nd.usize("ev_id"));
    if nd.bool("counted_in") { let c = ConnectionId::from(nd.usize("c_in")); assume(c != ev_id); hooks::accept_counted(&mut manager, c, true); }
    if nd.bool("counted_out") { let c = ConnectionId::from(nd.usize("c_out")); assume(c != ev_id); hooks::accept_counted(&mut manager, c, false); }
    let addr = nd.multiaddr("ep_addr");
    let endpoint = if nd.bool("listener") { Endpoint::Listener { address: addr, connection_id: ev_id } } else { Endpoint::Dialer { address: addr, connection_id: ev_id } };
    let result = hooks::on_connection_established(&mut manager, peer, &endpoint);
    let post = hooks::peer_state(&manager, &peer).expect("peer exists");
    match result { Ok(true) => cover("est.accept"), Ok(false) => cover("est.reject"), Err(()) => cover("est.error") }
    check("est.at-most-two", established(&post).len() <= 2);
    if let Some(d) = dial_id(&post) {
        check("est.no-wedge: dial id kept in peer state is still routable", hooks::is_pending(&manager, &d));
    }
}

// ------------------------------------------------------------------------------------------ C15
use litep2p::protocol::libp2p::kademlia::query::find_node::{FindNodeConfig, FindNodeContext};
use litep2p::protocol::libp2p::kademlia::query::QueryAction;
use litep2p::protocol::libp2p::kademlia::types::{ConnectionType, KademliaPeer, Key};
use litep2p::protocol::libp2p::kademlia::QueryId;
use litep2p::PeerId;
use std::collections::VecDeque;

const C15_PEERS: usize = 3;
const C15_STEPS: usize = 6;

fn key_bytes(last: u8) -> [u8; 32] { let mut b = [0u8; 32]; b[31] = last; b }

/// C15 kernel: bounded schedules of the real FindNodeContext against a ledger.
pub fn c15_find_node(nd: &mut Nondet) {
    let local = nd.peer_id("local");
    // peers with pairwise distinct ids and pairwise distinct distances 1 < d0 < d1 < d2 (symmetry: any
    // run is a renaming of one with ordered distances); the target key is 0 so distance == key.
    let mut peers: Vec<KademliaPeer> = Vec::new();
    let mut ids: Vec<PeerId> = Vec::new();
    let mut prev = 0u8;
    for _ in 0..C15_PEERS {
        let id = nd.peer_id("peer");
        for other in ids.iter() { assume(*other != id); }
        let d = nd.u8("dist");
        assume(d > prev);
        prev = d;
        ids.push(id);
        peers.push(KademliaPeer::new_verif(id, key_bytes(d), ConnectionType::NotConnected));
    }
    let local_is_known = nd.bool("local_in_network");
    if !local_is_known { for id in ids.iter() { assume(*id != local); } }
    let replication = 1 + nd.choose("replication", 2) as usize;
    let parallelism = 1 + nd.choose("parallelism", 2) as usize;
    let target = Key::from_bytes_verif(key_bytes(0), nd.peer_id("target"));
    let config = FindNodeConfig { local_peer_id: local, replication_factor: replication, parallelism_factor: parallelism, query: QueryId(0), target };
    // seeds: non-empty subset, never the local node (the routing table never stores it)
    let mut seeds = VecDeque::new();
    for i in 0..C15_PEERS {
        if nd.bool("seed") && ids[i] != local { seeds.push_back(peers[i].clone()); }
    }
    let mut ctx = FindNodeContext::new(config, seeds);

    // ledger
    let mut contacted: Vec<PeerId> = Vec::new();
    let mut answered: Vec<PeerId> = Vec::new();     // responded or failed
    let mut stale: Vec<PeerId> = Vec::new();        // aged beyond the peer timeout
    let mut responded: Vec<PeerId> = Vec::new();

    let steps = param("steps", C15_STEPS as u64);
    for _ in 0..steps {
        match nd.choose("event", 4) {
            0 => match ctx.next_action() {
                Some(QueryAction::SendMessage { peer, .. }) => {
                    cover("c15.send");
                    check("c15.never-contacts-local", peer != local);
                    check("c15.never-contacts-twice", !contacted.contains(&peer));
                    contacted.push(peer);
                    let fresh = contacted.iter().filter(|p| !answered.contains(p) && !stale.contains(p)).count();
                    check("c15.fresh-in-flight-within-parallelism", fresh <= parallelism);
                }
                Some(QueryAction::QuerySucceeded { .. }) => {
                    cover("c15.succeeded");
                    check("c15.success-has-responder", !responded.is_empty());
                    return;
                }
                Some(QueryAction::QueryFailed { .. }) => {
                    cover("c15.failed");
                    check("c15.failure-only-without-responses", responded.is_empty());
                    return;
                }
                Some(_) => { check("c15.unexpected-action", false); }
                None => {
                    cover("c15.wait");
                    let outstanding = contacted.iter().filter(|p| !answered.contains(p)).count();
                    check("c15.waits-only-on-outstanding-requests", outstanding > 0);
                }
            },
            1 | 2 => {
                // reply / failure from one outstanding peer
                let outstanding: Vec<PeerId> = contacted.iter().copied().filter(|p| !answered.contains(p)).collect();
                if outstanding.is_empty() { assume(false); }
                let who = outstanding[nd.choose("who", outstanding.len() as u64) as usize];
                answered.push(who);
                if nd.bool("replies") {
                    // lying peers: any subset of the network, possibly including the local node
                    let mut advertised = Vec::new();
                    for i in 0..C15_PEERS { if nd.bool("advertise") { advertised.push(peers[i].clone()); } }
                    responded.push(who);
                    ctx.register_response(who, advertised);
                    cover("c15.response");
                } else {
                    ctx.register_response_failure(who);
                    cover("c15.peer-failure");
                }
            }
            _ => {
                // time passes: every outstanding request is now older than the peer timeout
                let aged = std::time::Duration::from_secs(3600);
                for (_, (_, instant)) in ctx.pending.iter_mut() { *instant = *instant - aged; }
                for p in contacted.iter() { if !answered.contains(p) && !stale.contains(p) { stale.push(*p); } }
                cover("c15.timeout");
            }
        }
    }
}

// ------------------------------------------------------------------------------------------ C04
use bytes::Bytes;
use futures::{Sink, Stream};
use litep2p::codec::ProtocolCodec;
use litep2p::substream::{Substream, VerifIo};
use litep2p::types::SubstreamId;
use std::pin::Pin;
use std::task::{Context, Poll, RawWaker, RawWakerVTable, Waker};
use tokio::io::{AsyncRead, AsyncWrite, ReadBuf};

/// Carrier scripted by `Nondet`: `incoming` is what the remote wrote, `written` counts accepted bytes.
pub struct ScriptedIo {
    nd: *mut Nondet,
    incoming: Vec<u8>,
    pos: usize,
    pub written: usize,
    /// number of scripted (nondeterministic) answers left; afterwards the carrier is ideal:
    /// never Pending, transfers everything that fits
    budget: u64,
}
unsafe impl Send for ScriptedIo {}
impl VerifIo for ScriptedIo {}

impl ScriptedIo {
    fn new(nd: &mut Nondet, incoming: Vec<u8>) -> Self { ScriptedIo { nd: nd as *mut Nondet, incoming, pos: 0, written: 0, budget: param("io_budget", 3) } }
    fn scripted(&mut self) -> bool { if self.budget > 0 { self.budget -= 1; true } else { false } }
}

impl AsyncRead for ScriptedIo {
    fn poll_read(mut self: Pin<&mut Self>, _cx: &mut Context<'_>, buf: &mut ReadBuf<'_>) -> Poll<std::io::Result<()>> {
        let nd = unsafe { &mut *self.nd };
        let scripted = self.scripted();
        if scripted && nd.bool("read_pending") { return Poll::Pending; }
        let room = buf.remaining();
        let left = self.incoming.len() - self.pos;
        let avail = if left < room { left } else { room };
        if avail == 0 { return Poll::Ready(Ok(())); }
        // a non-empty prefix: one byte, half, or everything that fits
        let n = if !scripted { avail } else { match nd.choose("read_chunk", 3) { 0 => 1, 1 => if avail / 2 > 0 { avail / 2 } else { 1 }, _ => avail } };
        let pos = self.pos;
        buf.put_slice(&self.incoming[pos..pos + n]);
        self.pos += n;
        Poll::Ready(Ok(()))
    }
}
impl AsyncWrite for ScriptedIo {
    fn poll_write(mut self: Pin<&mut Self>, _cx: &mut Context<'_>, buf: &[u8]) -> Poll<std::io::Result<usize>> {
        let nd = unsafe { &mut *self.nd };
        if buf.is_empty() { return Poll::Ready(Ok(0)); }
        let scripted = self.scripted();
        if scripted && nd.bool("write_pending") { return Poll::Pending; }
        let n = if !scripted { buf.len() } else { match nd.choose("write_chunk", 3) { 0 => 1, 1 => if buf.len() / 2 > 0 { buf.len() / 2 } else { 1 }, _ => buf.len() } };
        self.written += n;
        Poll::Ready(Ok(n))
    }
    fn poll_flush(mut self: Pin<&mut Self>, _cx: &mut Context<'_>) -> Poll<std::io::Result<()>> {
        let nd = unsafe { &mut *self.nd };
        if self.scripted() && nd.bool("flush_pending") { Poll::Pending } else { Poll::Ready(Ok(())) }
    }
    fn poll_shutdown(self: Pin<&mut Self>, _cx: &mut Context<'_>) -> Poll<std::io::Result<()>> { Poll::Ready(Ok(())) }
}

fn noop_waker() -> Waker {
    fn clone(_: *const ()) -> RawWaker { RawWaker::new(std::ptr::null(), &VTABLE) }
    fn noop(_: *const ()) {}
    static VTABLE: RawWakerVTable = RawWakerVTable::new(clone, noop, noop, noop);
    unsafe { Waker::from_raw(RawWaker::new(std::ptr::null(), &VTABLE)) }
}

/// C04 kernel (receiver): an Identity(n) codec of any size must frame the stream without panicking.
pub fn c04_identity_receive(nd: &mut Nondet) {
    // frame sizes below, at and above the initial 1024-byte read buffer
    const SIZES: [usize; 6] = [1, 2, 32, 1024, 1025, 2048];
    let n = SIZES[nd.choose("payload_size", SIZES.len() as u64) as usize];
    let mut data = vec![0u8; n];
    data[0] = 7;
    data[n - 1] = 9;
    let io = ScriptedIo::new(nd, data);
    let peer = nd.peer_id("peer");
    let mut sub = Substream::new_verif(peer, SubstreamId::from(0usize), Box::new(io), ProtocolCodec::Identity(n));
    let waker = noop_waker();
    let mut cx = Context::from_waker(&waker);
    let polls = param("polls", 2);
    let mut i = 0;
    while i < polls {
        match Pin::new(&mut sub).poll_next(&mut cx) {
            Poll::Ready(Some(Ok(frame))) => {
                cover("c04.frame");
                check("c04.frame-has-codec-size", frame.len() == n);
                check("c04.frame-content", frame[n - 1] == 9 && (n == 1 || frame[0] == 7));
                return;
            }
            Poll::Ready(Some(Err(_))) => { check("c04.no-error-on-wellformed-stream", false); }
            Poll::Ready(None) => { cover("c04.eof"); return; }
            Poll::Pending => { cover("c04.pending"); }
        }
        i += 1;
    }
}

/// C04 kernel (sender): when the sink reports the flush complete, every accepted byte is in the carrier.
pub fn c04_sink_flush(nd: &mut Nondet) {
    let len = 1 + nd.choose("msg_len", 3) as usize;
    let io = ScriptedIo::new(nd, Vec::new());
    let peer = nd.peer_id("peer");
    let mut sub = Substream::new_verif(peer, SubstreamId::from(0usize), Box::new(io), ProtocolCodec::UnsignedVarint(Some(8)));
    let waker = noop_waker();
    let mut cx = Context::from_waker(&waker);
    match Sink::<Bytes>::poll_ready(Pin::new(&mut sub), &mut cx) { Poll::Ready(Ok(())) => {}, _ => { check("c04.ready-on-empty-sink", false); } }
    let msg = Bytes::from(vec![1u8; len]);
    check("c04.send-within-max-accepted", Sink::<Bytes>::start_send(Pin::new(&mut sub), msg).is_ok());
    let polls = param("polls", 3);
    let mut i = 0;
    while i < polls {
        match Sink::<Bytes>::poll_flush(Pin::new(&mut sub), &mut cx) {
            Poll::Ready(Ok(())) => {
                cover("c04.flush-ready");
                check("c04.flush-complete-means-nothing-withheld", sub.pending_out_is_empty_verif());
                return;
            }
            Poll::Ready(Err(_)) => { check("c04.no-error-from-healthy-carrier", false); }
            Poll::Pending => { cover("c04.flush-pending"); }
        }
        i += 1;
    }
}

// ------------------------------------------------------------------------------------------ C05 dial
use litep2p::transport::manager::verif_hooks::TransportCall;
use multiaddr::Protocol;

/// C05 kernel: `dial_address` either starts exactly one transport attempt or leaves the peer dialable.
pub fn c05_dial_address(nd: &mut Nondet) {
    let mut manager = TransportManagerBuilder::new().build();
    let ndp = nd as *mut Nondet as usize;
    let mut dial_calls = 0usize;
    let calls = &mut dial_calls as *mut usize as usize;
    hooks::register_scripted_tcp(&mut manager, Box::new(move |call: TransportCall| {
        let nd = unsafe { &mut *(ndp as *mut Nondet) };
        if let TransportCall::Dial(_) = call { unsafe { *(calls as *mut usize) += 1; } }
        nd.bool("transport_ok")
    }));
    let peer = nd.peer_id("peer");
    let with_peer = nd.bool("address_has_peer");
    let base = nd.multiaddr("addr");
    let address = if with_peer { base.with(Protocol::P2p(peer.into())) } else { base };
    match hooks::dial_address_now(&mut manager, address) {
        None => { check("c05.dial_address-never-suspends", false); }
        Some(true) => {
            cover("c05.dial.accepted");
            check("c05.accepted-dial-made-one-attempt", dial_calls == 1);
            check("c05.accepted-dial-is-in-progress", !hooks::can_dial_now(&manager, &peer));
        }
        Some(false) => {
            cover("c05.dial.refused");
            check("c05.refused-dial-leaves-peer-dialable", hooks::can_dial_now(&manager, &peer));
        }
    }
}

// ------------------------------------------------------------------------------------------ C16
use litep2p::protocol::libp2p::kademlia::query::target_peers::PutToTargetPeersContext;
use litep2p::protocol::libp2p::kademlia::{Quorum, RecordKey};
use std::num::NonZeroUsize;

/// C16 kernel: the send-phase tracker reports success only if the (clamped) quorum of *distinct*
/// peers was sent the data, and reports exactly one terminal action once every peer has an outcome.
pub fn c16_put_to_targets(nd: &mut Nondet) {
    let universe = [nd.peer_id("p0"), nd.peer_id("p1"), nd.peer_id("p2")];
    assume(universe[0] != universe[1] && universe[0] != universe[2] && universe[1] != universe[2]);
    // target list: up to 3 entries, duplicates allowed
    let n = nd.choose("n_targets", 4) as usize;
    let mut targets: Vec<PeerId> = Vec::new();
    for _ in 0..n { targets.push(universe[nd.choose("target", 3) as usize]); }
    let mut distinct: Vec<PeerId> = Vec::new();
    for t in targets.iter() { if !distinct.contains(t) { distinct.push(*t); } }
    let quorum = match nd.choose("quorum", 3) {
        0 => Quorum::One,
        1 => Quorum::All,
        _ => Quorum::N(NonZeroUsize::new(1 + nd.choose("quorum_n", 3) as usize).unwrap()),
    };
    let mut ctx = PutToTargetPeersContext::new(QueryId(7), RecordKey::from(vec![1u8]), targets.clone(), quorum);
    let mut sent: Vec<PeerId> = Vec::new();
    let mut settled: Vec<PeerId> = Vec::new();
    let steps = param("steps", 4);
    for _ in 0..steps {
        if let Some(action) = ctx.next_action() {
            check("c16.terminal-only-when-every-peer-settled", distinct.iter().all(|p| settled.contains(p)));
            match action {
                QueryAction::QuerySucceeded { .. } => {
                    cover("c16.succeeded");
                    let needed = match quorum {
                        Quorum::One => 1,
                        Quorum::All => std::cmp::max(distinct.len(), 1),
                        Quorum::N(k) => std::cmp::min(k.get(), std::cmp::max(distinct.len(), 1)),
                    };
                    check("c16.success-means-quorum-of-distinct-peers-were-sent-the-data", sent.len() >= needed);
                }
                QueryAction::QueryFailed { .. } => {
                    cover("c16.failed");
                }
                _ => check("c16.unexpected-action", false),
            }
            return;
        }
        let who = universe[nd.choose("who", 3) as usize];
        if nd.bool("send_ok") {
            ctx.register_send_success(who);
            if distinct.contains(&who) && !settled.contains(&who) { sent.push(who); }
        } else {
            ctx.register_send_failure(who);
        }
        if distinct.contains(&who) && !settled.contains(&who) { settled.push(who); }
    }
}

// ------------------------------------------------------------------------------------------ C20
use litep2p::protocol::libp2p::bitswap::verif_hooks as bitswap_hooks;

/// C20 kernel: response batching — size-bounded, order-preserving, loses only oversized blocks.
pub fn c20_batching(nd: &mut Nondet) {
    let max = nd.usize("max_batch");
    assume(max <= 1 << 22);
    let n = 1 + nd.choose("n_blocks", 3) as usize;
    let mut sizes: Vec<usize> = Vec::new();
    let mut queue: VecDeque<(cid::Cid, Vec<u8>)> = VecDeque::new();
    for _ in 0..n {
        let len = nd.usize("block_len");
        assume(len <= 1 << 23);
        sizes.push(len);
        let c = nd.cid("cid");
        queue.push_back((c, nd.blob(len)));
    }
    // reference: walk the size list
    let mut sent: Vec<usize> = Vec::new();
    let mut rounds = 0;
    while let Some(batch) = bitswap_hooks::extract_next_batch_sizes(&mut queue, max) {
        rounds += 1;
        check("c20.rounds-bounded", rounds <= 3);
        let total: usize = batch.iter().sum();
        check("c20.batch-within-limit", total <= max);
        check("c20.batch-not-empty", !batch.is_empty());
        for s in batch.iter() { sent.push(*s); }
        // maximality: the next queued block (if any) would not have fitted
        if let Some((_, next)) = queue.front() {
            check("c20.batch-maximal", next.len() > max || total + next.len() > max);
        }
        cover("c20.batch");
    }
    let expected: Vec<usize> = sizes.iter().copied().filter(|s| *s <= max).collect();
    check("c20.every-fitting-block-sent-once-in-order", sent == expected);
    check("c20.queue-drained", queue.is_empty());
}

// ------------------------------------------------------------------------------------------ C17
use litep2p::protocol::libp2p::kademlia::store::{MemoryStore, MemoryStoreConfig};
use litep2p::protocol::libp2p::kademlia::Record;
use std::time::{Duration, Instant};

#[derive(Clone)]
struct RefRecord { key: u8, len: usize, expiry: Option<i64> }   // expiry in seconds relative to "now"

/// C17 kernel (records): bounded count and size, no expired record returned, newer-expiry rule.
pub fn c17_store_records(nd: &mut Nondet) {
    let max_records = nd.choose("max_records", 3) as usize;
    let max_size = nd.usize("max_size");
    assume(max_size <= 64);
    let config = MemoryStoreConfig {
        max_records,
        max_record_size_bytes: max_size,
        max_provider_keys: 1,
        max_provider_addresses: 1,
        max_providers_per_key: 1,
        provider_refresh_interval: Duration::from_secs(3600),
        provider_ttl: Duration::from_secs(3600),
    };
    let mut store = MemoryStore::with_config(nd.peer_id("local"), config);
    let now = Instant::now();
    let mut reference: Vec<RefRecord> = Vec::new();
    let steps = param("steps", 3);
    for _ in 0..steps {
        let key = nd.choose("key", 2) as u8;
        let rkey = RecordKey::from(vec![key]);
        if nd.bool("op_put") {
            let len = nd.usize("value_len");
            assume(len <= 64);
            // expiry: none, already past, soon, later  (relative seconds)
            let expiry = match nd.choose("expiry", 4) { 0 => None, 1 => Some(-10i64), 2 => Some(100), _ => Some(200) };
            let mut record = Record::new(rkey, nd.blob(len));
            record.expires = expiry.map(|s| if s < 0 { now - Duration::from_secs((-s) as u64) } else { now + Duration::from_secs(s as u64) });
            store.put(record);
            // reference semantics
            if len < max_size {
                if let Some(pos) = reference.iter().position(|r| r.key == key) {
                    let replace = match (reference[pos].expiry, expiry) { (Some(old), Some(new)) => !(old > new), _ => true };
                    if replace { reference[pos] = RefRecord { key, len, expiry }; }
                } else if reference.len() < max_records {
                    reference.push(RefRecord { key, len, expiry });
                }
            }
            cover("c17.put");
        } else {
            let got = store.get(&rkey).map(|r| r.value.len());
            let expect = match reference.iter().position(|r| r.key == key) {
                Some(pos) => {
                    let expired = matches!(reference[pos].expiry, Some(s) if s <= 0);
                    if expired { reference.remove(pos); None } else { Some(reference[pos].len) }
                }
                None => None,
            };
            check("c17.get-matches-reference-store", got == expect);
            cover("c17.get");
        }
        check("c17.record-count-bounded", reference.len() <= max_records);
    }
}

// ------------------------------------------------------------------------------------------ C03/C19
use bytes::BytesMut;
use litep2p::multistream_select::protocol::Message;

/// C03-H1 / C19 kernel: the multistream message decoder is total, and what it accepts re-encodes
/// to something that decodes to the same message.
pub fn c19_multistream_decode(nd: &mut Nondet) {
    let max = param("max_len", 5);
    let n = nd.choose("len", max + 1) as usize;
    let mut raw: Vec<u8> = Vec::new();
    for _ in 0..n { raw.push(nd.u8("byte")); }
    match Message::decode(Bytes::from(raw)) {
        Err(_) => cover("c19.rejected"),
        Ok(message) => {
            cover("c19.accepted");
            let mut out = BytesMut::new();
            check("c19.accepted-message-encodes", message.encode(&mut out).is_ok());
            check("c19.encoded_len-is-exact", message.encoded_len() == out.len());
            match Message::decode(out.freeze()) {
                Ok(again) => check("c19.decode-encode-decode-is-stable", again == message),
                Err(_) => check("c19.own-encoding-must-decode", false),
            }
        }
    }
}
