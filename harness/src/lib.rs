pub mod verif_rt;
use verif_rt::{assume, check, cover, param, Nondet};

use litep2p::transport::manager::limits::ConnectionLimitsConfig;
use litep2p::transport::manager::peer_state::{ConnectionRecord, PeerState, SecondaryOrDialing};
use litep2p::transport::manager::verif_hooks as hooks;
use litep2p::transport::manager::TransportManagerBuilder;
use litep2p::transport::Endpoint;
use litep2p::types::ConnectionId;

fn rec(nd: &mut Nondet) -> ConnectionRecord {
    ConnectionRecord { address: nd.multiaddr("addr"), connection_id: ConnectionId::from(nd.usize("cid")) }
}

fn any_state(nd: &mut Nondet) -> PeerState {
    match nd.choose("state", 6) {
        0 => PeerState::Disconnected { dial_record: None },
        1 => PeerState::Disconnected { dial_record: Some(rec(nd)) },
        2 => PeerState::Dialing { dial_record: rec(nd) },
        3 => PeerState::Connected { record: rec(nd), secondary: None },
        4 => PeerState::Connected { record: rec(nd), secondary: Some(SecondaryOrDialing::Dialing(rec(nd))) },
        _ => PeerState::Connected { record: rec(nd), secondary: Some(SecondaryOrDialing::Secondary(rec(nd))) },
    }
}

/// ids of established connections / of the outstanding dial, as the reference model sees them
fn established(st: &PeerState) -> Vec<ConnectionId> {
    match st {
        PeerState::Connected { record, secondary: Some(SecondaryOrDialing::Secondary(s)) } => vec![record.connection_id, s.connection_id],
        PeerState::Connected { record, .. } => vec![record.connection_id],
        _ => vec![],
    }
}
fn dial_id(st: &PeerState) -> Option<ConnectionId> {
    match st {
        PeerState::Dialing { dial_record } => Some(dial_record.connection_id),
        PeerState::Disconnected { dial_record: Some(d) } => Some(d.connection_id),
        PeerState::Connected { secondary: Some(SecondaryOrDialing::Dialing(d)), .. } => Some(d.connection_id),
        _ => None,
    }
}
fn well_formed(st: &PeerState) -> bool {
    let est = established(st);
    let distinct = est.len() < 2 || est[0] != est[1];
    let dial_fresh = match dial_id(st) { Some(d) => !est.contains(&d), None => true };
    distinct && dial_fresh
}

/// C05/C06 kernel: one step of PeerState::on_connection_closed against a reference model.
pub fn c05_peerstate_closed(nd: &mut Nondet) {
    let mut st = any_state(nd);
    assume(well_formed(&st));
    let pre = st.clone();
    let id = ConnectionId::from(nd.usize("closed_id"));
    let reported = st.on_connection_closed(id);
    let was = established(&pre);
    let now = established(&st);
    // reference: remove id from the established list; report iff the list became empty
    let expect: Vec<ConnectionId> = was.iter().copied().filter(|c| *c != id).collect();
    check("closed.established-set", now == expect);
    check("closed.report-iff-last", reported == (!was.is_empty() && expect.is_empty()));
    check("closed.dial-record-kept", dial_id(&st) == dial_id(&pre));
    if reported { cover("closed.reported"); } else { cover("closed.silent"); }
}

/// C05 kernel: one step of TransportManager::on_connection_established from an arbitrary state.
pub fn c05_manager_established(nd: &mut Nondet) {
    let max_in = match nd.choose("max_in", 3) { 0 => None, k => Some(k as usize) };
    let max_out = match nd.choose("max_out", 3) { 0 => None, k => Some(k as usize) };
    let mut manager = TransportManagerBuilder::new()
        .with_connection_limits_config(
            ConnectionLimitsConfig::default().max_incoming_connections(max_in).max_outgoing_connections(max_out),
        )
        .build();
    let peer = nd.peer_id("peer");
    let st = any_state(nd);
    assume(well_formed(&st));
    // representation invariant under test: the outstanding dial id is routable
    if let Some(d) = dial_id(&st) { hooks::insert_pending(&mut manager, d, peer); }
    hooks::set_peer_state(&mut manager, peer, st.clone());
    // some already counted connections (ids distinct from everything else)
    let ev_id = ConnectionId::from(nd.usize("ev_id"));
    if nd.bool("counted_in") { let c = ConnectionId::from(nd.usize("c_in")); assume(c != ev_id); hooks::accept_counted(&mut manager, c, true); }
    if nd.bool("counted_out") { let c = ConnectionId::from(nd.usize("c_out")); assume(c != ev_id); hooks::accept_counted(&mut manager, c, false); }
    let addr = nd.multiaddr("ep_addr");
    let endpoint = if nd.bool("listener") { Endpoint::Listener { address: addr, connection_id: ev_id } } else { Endpoint::Dialer { address: addr, connection_id: ev_id } };
    let result = hooks::on_connection_established(&mut manager, peer, &endpoint);
    let post = hooks::peer_state(&manager, &peer).expect("peer exists");
    match result { Ok(true) => cover("est.accept"), Ok(false) => cover("est.reject"), Err(()) => cover("est.error") }
    check("est.at-most-two", established(&post).len() <= 2);
    if let Some(d) = dial_id(&post) {
        check("est.no-wedge: dial id kept in peer state is still routable", hooks::is_pending(&manager, &d));
    }
}

// ------------------------------------------------------------------------------------------ C15
use litep2p::protocol::libp2p::kademlia::query::find_node::{FindNodeConfig, FindNodeContext};
use litep2p::protocol::libp2p::kademlia::query::QueryAction;
use litep2p::protocol::libp2p::kademlia::types::{ConnectionType, KademliaPeer, Key};
use litep2p::protocol::libp2p::kademlia::QueryId;
use litep2p::PeerId;
use std::collections::VecDeque;

const C15_PEERS: usize = 3;
const C15_STEPS: usize = 6;

fn key_bytes(last: u8) -> [u8; 32] { let mut b = [0u8; 32]; b[31] = last; b }

/// C15 kernel: bounded schedules of the real FindNodeContext against a ledger.
pub fn c15_find_node(nd: &mut Nondet) {
    let local = nd.peer_id("local");
    // peers with pairwise distinct ids and pairwise distinct distances 1 < d0 < d1 < d2 (symmetry: any
    // run is a renaming of one with ordered distances); the target key is 0 so distance == key.
    let mut peers: Vec<KademliaPeer> = Vec::new();
    let mut ids: Vec<PeerId> = Vec::new();
    let mut dists: Vec<u8> = Vec::new();
    let mut prev = 0u8;
    for _ in 0..C15_PEERS {
        let id = nd.peer_id("peer");
        for other in ids.iter() { assume(*other != id); }
        let d = nd.u8("dist");
        assume(d > prev);
        prev = d;
        ids.push(id);
        dists.push(d);
        peers.push(KademliaPeer::new_verif(id, key_bytes(d), ConnectionType::NotConnected));
    }
    let local_is_known = nd.bool("local_in_network");
    if !local_is_known { for id in ids.iter() { assume(*id != local); } }
    // symbolic (not forked) configuration: the solver splits only where the code compares against them
    let replication = nd.usize("replication");
    assume(replication >= 1 && replication <= 2);
    let parallelism = nd.usize("parallelism");
    assume(parallelism >= 1 && parallelism <= 2);
    let target = Key::from_bytes_verif(key_bytes(0), nd.peer_id("target"));
    let config = FindNodeConfig { local_peer_id: local, replication_factor: replication, parallelism_factor: parallelism, query: QueryId(0), target };
    // seeds: non-empty subset, never the local node (the routing table never stores it)
    let mut seeds = VecDeque::new();
    let mut learned = [false; C15_PEERS];
    for i in 0..C15_PEERS {
        if nd.bool("seed") && ids[i] != local { seeds.push_back(peers[i].clone()); learned[i] = true; }
    }
    let mut ctx = FindNodeContext::new(config, seeds);

    // ledger
    let mut contacted: Vec<PeerId> = Vec::new();
    let mut answered: Vec<PeerId> = Vec::new();     // responded or failed
    let mut stale: Vec<PeerId> = Vec::new();        // aged beyond the peer timeout
    let mut responded: Vec<PeerId> = Vec::new();

    let steps = param("steps", C15_STEPS as u64);
    for _ in 0..steps {
        match nd.choose("event", 4) {
            0 => match ctx.next_action() {
                Some(QueryAction::SendMessage { peer, .. }) => {
                    cover("c15.send");
                    check("c15.never-contacts-local", peer != local);
                    check("c15.never-contacts-twice", !contacted.contains(&peer));
                    contacted.push(peer);
                    let fresh = contacted.iter().filter(|p| !answered.contains(p) && !stale.contains(p)).count();
                    check("c15.fresh-in-flight-within-parallelism", fresh <= parallelism);
                }
                Some(QueryAction::QuerySucceeded { .. }) => {
                    cover("c15.succeeded");
                    check("c15.success-has-responder", !responded.is_empty());
                    // reported peers: answered, at most `replication` many, and nothing closer was left unvisited
                    let reported: Vec<PeerId> = ctx.responses.values().map(|p| p.peer_id_verif()).collect();
                    check("c15.reports-at-most-replication-factor", reported.len() <= replication);
                    check("c15.reports-only-peers-that-answered", reported.iter().all(|p| responded.contains(p)));
                    let dist_of = |p: &PeerId| -> u8 { let i = ids.iter().position(|q| q == p).expect("known peer"); dists[i] };
                    let furthest = reported.iter().map(|p| dist_of(p)).max().unwrap_or(0);
                    for (i, known) in learned.iter().enumerate() {
                        if !*known || ids[i] == local { continue; }
                        let must_visit = reported.len() < replication || dists[i] < furthest;
                        if must_visit { check("c15.every-closer-learned-peer-was-contacted", contacted.contains(&ids[i])); }
                    }
                    // the reported set is the `replication` closest responders
                    let mut closer_responders = 0;
                    for r in responded.iter() { if !reported.contains(r) && dist_of(r) < furthest { closer_responders += 1; } }
                    check("c15.reported-are-the-closest-responders", closer_responders == 0);
                    return;
                }
                Some(QueryAction::QueryFailed { .. }) => {
                    cover("c15.failed");
                    check("c15.failure-only-without-responses", responded.is_empty());
                    return;
                }
                Some(_) => { check("c15.unexpected-action", false); }
                None => {
                    cover("c15.wait");
                    let outstanding = contacted.iter().filter(|p| !answered.contains(p)).count();
                    check("c15.waits-only-on-outstanding-requests", outstanding > 0);
                }
            },
            1 | 2 => {
                // reply / failure from one outstanding peer
                let outstanding: Vec<PeerId> = contacted.iter().copied().filter(|p| !answered.contains(p)).collect();
                if outstanding.is_empty() { assume(false); }
                let who = outstanding[nd.choose("who", outstanding.len() as u64) as usize];
                answered.push(who);
                if nd.bool("replies") {
                    // lying peers: any subset of the network, possibly including the local node
                    let mut advertised = Vec::new();
                    for i in 0..C15_PEERS { if nd.bool("advertise") { advertised.push(peers[i].clone()); learned[i] = true; } }
                    responded.push(who);
                    ctx.register_response(who, advertised);
                    cover("c15.response");
                } else {
                    ctx.register_response_failure(who);
                    cover("c15.peer-failure");
                }
            }
            _ => {
                // time passes: every outstanding request is now older than the peer timeout
                let aged = std::time::Duration::from_secs(3600);
                for (_, (_, instant)) in ctx.pending.iter_mut() { *instant = *instant - aged; }
                for p in contacted.iter() { if !answered.contains(p) && !stale.contains(p) { stale.push(*p); } }
                cover("c15.timeout");
            }
        }
    }
}

// ------------------------------------------------------------------------------------------ C04
use bytes::Bytes;
use futures::{Sink, Stream};
use litep2p::codec::ProtocolCodec;
use litep2p::substream::{Substream, VerifIo};
use litep2p::types::SubstreamId;
use std::pin::Pin;
use std::task::{Context, Poll, RawWaker, RawWakerVTable, Waker};
use tokio::io::{AsyncRead, AsyncWrite, ReadBuf};

/// Carrier scripted by `Nondet`: `incoming` is what the remote wrote, `written` counts accepted bytes.
pub struct ScriptedIo {
    nd: *mut Nondet,
    incoming: Vec<u8>,
    pos: usize,
    pub written: usize,
    /// number of scripted (nondeterministic) answers left; afterwards the carrier is ideal:
    /// never Pending, transfers everything that fits
    budget: u64,
    /// where the written bytes go (None: only counted)
    sink: Option<*mut Vec<u8>>,
    /// the remote neither sends more nor closes once `incoming` is used up (default: end of stream)
    idle_at_end: bool,
    /// the n-th call of poll_write fails with BrokenPipe
    fail_write_at: Option<usize>,
    write_calls: usize,
}
unsafe impl Send for ScriptedIo {}
impl VerifIo for ScriptedIo {}

impl ScriptedIo {
    fn new(nd: &mut Nondet, incoming: Vec<u8>) -> Self { ScriptedIo { nd: nd as *mut Nondet, incoming, pos: 0, written: 0, budget: param("io_budget", 3), sink: None, idle_at_end: false, fail_write_at: None, write_calls: 0 } }
    fn with_sink(mut self, sink: *mut Vec<u8>) -> Self { self.sink = Some(sink); self }
    fn scripted(&mut self) -> bool { if self.budget > 0 { self.budget -= 1; true } else { false } }
}

impl AsyncRead for ScriptedIo {
    fn poll_read(mut self: Pin<&mut Self>, cx: &mut Context<'_>, buf: &mut ReadBuf<'_>) -> Poll<std::io::Result<()>> {
        let nd = unsafe { &mut *self.nd };
        if self.idle_at_end && self.incoming.len() == self.pos { { cx.waker().wake_by_ref(); return Poll::Pending; } }
        let scripted = self.scripted();
        if scripted && nd.bool("read_pending") { { cx.waker().wake_by_ref(); return Poll::Pending; } }
        let room = buf.remaining();
        let left = self.incoming.len() - self.pos;
        let avail = if left < room { left } else { room };
        if avail == 0 { return Poll::Ready(Ok(())); }
        // a non-empty prefix: one byte, half, or everything that fits
        let n = if !scripted { avail } else { match nd.choose("read_chunk", 3) { 0 => 1, 1 => if avail / 2 > 0 { avail / 2 } else { 1 }, _ => avail } };
        let pos = self.pos;
        buf.put_slice(&self.incoming[pos..pos + n]);
        self.pos += n;
        Poll::Ready(Ok(()))
    }
}
impl AsyncWrite for ScriptedIo {
    fn poll_write(mut self: Pin<&mut Self>, cx: &mut Context<'_>, buf: &[u8]) -> Poll<std::io::Result<usize>> {
        let nd = unsafe { &mut *self.nd };
        if buf.is_empty() { return Poll::Ready(Ok(0)); }
        self.write_calls += 1;
        if self.fail_write_at == Some(self.write_calls) { return Poll::Ready(Err(std::io::ErrorKind::BrokenPipe.into())); }
        let scripted = self.scripted();
        if scripted && nd.bool("write_pending") { { cx.waker().wake_by_ref(); return Poll::Pending; } }
        let n = if !scripted { buf.len() } else { match nd.choose("write_chunk", 3) { 0 => 1, 1 => if buf.len() / 2 > 0 { buf.len() / 2 } else { 1 }, _ => buf.len() } };
        self.written += n;
        if let Some(sink) = self.sink { unsafe { (*sink).extend_from_slice(&buf[..n]); } }
        Poll::Ready(Ok(n))
    }
    fn poll_flush(mut self: Pin<&mut Self>, cx: &mut Context<'_>) -> Poll<std::io::Result<()>> {
        let nd = unsafe { &mut *self.nd };
        if self.scripted() && nd.bool("flush_pending") { cx.waker().wake_by_ref(); Poll::Pending } else { Poll::Ready(Ok(())) }
    }
    fn poll_shutdown(self: Pin<&mut Self>, _cx: &mut Context<'_>) -> Poll<std::io::Result<()>> { Poll::Ready(Ok(())) }
}

fn noop_waker() -> Waker {
    fn clone(_: *const ()) -> RawWaker { RawWaker::new(std::ptr::null(), &VTABLE) }
    fn noop(_: *const ()) {}
    static VTABLE: RawWakerVTable = RawWakerVTable::new(clone, noop, noop, noop);
    unsafe { Waker::from_raw(RawWaker::new(std::ptr::null(), &VTABLE)) }
}

/// C04 kernel (receiver): an Identity(n) codec of any size must frame the stream without panicking.
pub fn c04_identity_receive(nd: &mut Nondet) {
    // frame sizes below, at and above the initial 1024-byte read buffer
    const SIZES: [usize; 6] = [1, 2, 32, 1024, 1025, 2048];
    let n = SIZES[nd.choose("payload_size", SIZES.len() as u64) as usize];
    let mut data = vec![0u8; n];
    data[0] = 7;
    data[n - 1] = 9;
    let io = ScriptedIo::new(nd, data);
    let peer = nd.peer_id("peer");
    let mut sub = Substream::new_verif(peer, SubstreamId::from(0usize), Box::new(io), ProtocolCodec::Identity(n));
    let waker = noop_waker();
    let mut cx = Context::from_waker(&waker);
    let polls = param("polls", 2);
    let mut i = 0;
    while i < polls {
        match Pin::new(&mut sub).poll_next(&mut cx) {
            Poll::Ready(Some(Ok(frame))) => {
                cover("c04.frame");
                check("c04.frame-has-codec-size", frame.len() == n);
                check("c04.frame-content", frame[n - 1] == 9 && (n == 1 || frame[0] == 7));
                return;
            }
            Poll::Ready(Some(Err(_))) => { check("c04.no-error-on-wellformed-stream", false); }
            Poll::Ready(None) => { cover("c04.eof"); return; }
            Poll::Pending => { cover("c04.pending"); }
        }
        i += 1;
    }
}

/// C04 kernel (sender): when the sink reports the flush complete, every accepted byte is in the carrier.
pub fn c04_sink_flush(nd: &mut Nondet) {
    let len = 1 + nd.choose("msg_len", 3) as usize;
    let mut wire: Vec<u8> = Vec::new();
    let io = ScriptedIo::new(nd, Vec::new()).with_sink(&mut wire as *mut Vec<u8>);
    let peer = nd.peer_id("peer");
    let mut sub = Substream::new_verif(peer, SubstreamId::from(0usize), Box::new(io), ProtocolCodec::UnsignedVarint(Some(8)));
    let waker = noop_waker();
    let mut cx = Context::from_waker(&waker);
    match Sink::<Bytes>::poll_ready(Pin::new(&mut sub), &mut cx) { Poll::Ready(Ok(())) => {}, _ => { check("c04.ready-on-empty-sink", false); } }
    let payload: Vec<u8> = (0..len).map(|i| 0x51 + i as u8).collect();
    let mut expected_wire = vec![len as u8];
    expected_wire.extend_from_slice(&payload);
    let msg = Bytes::from(payload);
    check("c04.send-within-max-accepted", Sink::<Bytes>::start_send(Pin::new(&mut sub), msg).is_ok());
    let polls = param("polls", 3);
    let mut i = 0;
    while i < polls {
        match Sink::<Bytes>::poll_flush(Pin::new(&mut sub), &mut cx) {
            Poll::Ready(Ok(())) => {
                cover("c04.flush-ready");
                check("c04.flush-complete-means-nothing-withheld", sub.pending_out_is_empty_verif());
                check("c04.flushed-bytes-are-the-framed-message", wire == expected_wire);
                return;
            }
            Poll::Ready(Err(_)) => { check("c04.no-error-from-healthy-carrier", false); }
            Poll::Pending => { cover("c04.flush-pending"); }
        }
        // whatever has reached the carrier so far is a prefix of the framed message: nothing reordered, repeated or dropped
        check("c04.carrier-holds-a-prefix-of-the-framed-message", wire.len() <= expected_wire.len() && wire[..] == expected_wire[..wire.len()]);
        i += 1;
    }
}

/// C04 (receiver, several frames): every length-prefixed frame in the stream is delivered once, in order and unchanged,
/// including a frame larger than 64 KiB with further frames already buffered behind it.
pub fn c04_frame_sequence(nd: &mut Nondet) {
    let first = match nd.choose("first_frame", 4) { 0 => 1usize, 1 => 300, 2 => 70000, _ => 131073 };
    let second = match nd.choose("second_frame", 3) { 0 => 0usize, 1 => 2, _ => 66000 };
    let third = 3usize;
    let sizes = [first, second, third];
    let mut incoming: Vec<u8> = Vec::new();
    let total: usize = first + second + third;
    let data = nd.pattern(total);
    let mut at = 0usize;
    for size in sizes.iter() {
        let mut buf = unsigned_varint::encode::usize_buffer();
        incoming.extend_from_slice(unsigned_varint::encode::usize(*size, &mut buf));
        incoming.extend_from_slice(&data[at..at + *size]);
        at += *size;
    }
    let io = ScriptedIo::new(nd, incoming);
    let peer = nd.peer_id_fixed(1);
    let limit = if nd.bool("unlimited") { None } else { Some(200000usize) };
    let mut sub = Substream::new_verif(peer, SubstreamId::from(0usize), Box::new(io), ProtocolCodec::UnsignedVarint(limit));
    let waker = noop_waker();
    let mut cx = Context::from_waker(&waker);
    let mut delivered = 0usize;
    let mut offset = 0usize;
    let mut polls = 0;
    loop {
        polls += 1;
        if polls > 60 { check("c04q.every-frame-is-delivered", false); return; }
        match Pin::new(&mut sub).poll_next(&mut cx) {
            Poll::Pending => { cover("c04q.pending"); }
            Poll::Ready(Some(Ok(frame))) => {
                check("c04q.no-frame-beyond-the-stream", delivered < 3);
                check("c04q.frame-has-the-announced-length", frame.len() == sizes[delivered]);
                check("c04q.frame-carries-the-announced-bytes", frame[..] == data[offset..offset + sizes[delivered]]);
                offset += sizes[delivered];
                delivered += 1;
                cover("c04q.frame");
            }
            Poll::Ready(Some(Err(_))) => { check("c04q.wellformed-stream-gives-no-error", false); return; }
            Poll::Ready(None) => { check("c04q.stream-ends-after-the-last-frame", delivered == 3); cover("c04q.end"); return; }
        }
    }
}

// ------------------------------------------------------------------------------------------ C05 dial
use litep2p::transport::manager::verif_hooks::TransportCall;
use multiaddr::Protocol;

/// C05 kernel: `dial_address` either starts exactly one transport attempt or leaves the peer dialable.
pub fn c05_dial_address(nd: &mut Nondet) {
    let mut manager = TransportManagerBuilder::new().build();
    let ndp = nd as *mut Nondet as usize;
    let mut dial_calls = 0usize;
    let calls = &mut dial_calls as *mut usize as usize;
    hooks::register_scripted_tcp(&mut manager, Box::new(move |call: TransportCall| {
        let nd = unsafe { &mut *(ndp as *mut Nondet) };
        if let TransportCall::Dial(_) = call { unsafe { *(calls as *mut usize) += 1; } }
        nd.bool("transport_ok")
    }));
    let peer = nd.peer_id("peer");
    let with_peer = nd.bool("address_has_peer");
    let base = nd.multiaddr("addr");
    let address = if with_peer { base.with(Protocol::P2p(peer.into())) } else { base };
    match hooks::dial_address_now(&mut manager, address) {
        None => { check("c05.dial_address-never-suspends", false); }
        Some(true) => {
            cover("c05.dial.accepted");
            check("c05.accepted-dial-made-one-attempt", dial_calls == 1);
            check("c05.accepted-dial-is-in-progress", !hooks::can_dial_now(&manager, &peer));
        }
        Some(false) => {
            cover("c05.dial.refused");
            check("c05.refused-dial-leaves-peer-dialable", hooks::can_dial_now(&manager, &peer));
        }
    }
}

// ------------------------------------------------------------------------------------------ C16
use litep2p::protocol::libp2p::kademlia::query::target_peers::PutToTargetPeersContext;
use litep2p::protocol::libp2p::kademlia::{Quorum, RecordKey};
use std::num::NonZeroUsize;

/// C16 kernel: the send-phase tracker reports success only if the (clamped) quorum of *distinct*
/// peers was sent the data, and reports exactly one terminal action once every peer has an outcome.
pub fn c16_put_to_targets(nd: &mut Nondet) {
    let universe = [nd.peer_id("p0"), nd.peer_id("p1"), nd.peer_id("p2")];
    assume(universe[0] != universe[1] && universe[0] != universe[2] && universe[1] != universe[2]);
    // target list: up to 3 entries, duplicates allowed
    let n = nd.choose("n_targets", 4) as usize;
    let mut targets: Vec<PeerId> = Vec::new();
    for _ in 0..n { targets.push(universe[nd.choose("target", 3) as usize]); }
    let mut distinct: Vec<PeerId> = Vec::new();
    for t in targets.iter() { if !distinct.contains(t) { distinct.push(*t); } }
    let quorum = match nd.choose("quorum", 3) {
        0 => Quorum::One,
        1 => Quorum::All,
        _ => Quorum::N(NonZeroUsize::new(1 + nd.choose("quorum_n", 3) as usize).unwrap()),
    };
    let mut ctx = PutToTargetPeersContext::new(QueryId(7), RecordKey::from(vec![1u8]), targets.clone(), quorum);
    let mut sent: Vec<PeerId> = Vec::new();
    let mut settled: Vec<PeerId> = Vec::new();
    let steps = param("steps", 4);
    for _ in 0..steps {
        if let Some(action) = ctx.next_action() {
            check("c16.terminal-only-when-every-peer-settled", distinct.iter().all(|p| settled.contains(p)));
            match action {
                QueryAction::QuerySucceeded { .. } => {
                    cover("c16.succeeded");
                    let needed = match quorum {
                        Quorum::One => 1,
                        Quorum::All => std::cmp::max(distinct.len(), 1),
                        Quorum::N(k) => std::cmp::min(k.get(), std::cmp::max(distinct.len(), 1)),
                    };
                    check("c16.success-means-quorum-of-distinct-peers-were-sent-the-data", sent.len() >= needed);
                }
                QueryAction::QueryFailed { .. } => {
                    cover("c16.failed");
                }
                _ => check("c16.unexpected-action", false),
            }
            return;
        }
        let who = universe[nd.choose("who", 3) as usize];
        if nd.bool("send_ok") {
            ctx.register_send_success(who);
            if distinct.contains(&who) && !settled.contains(&who) { sent.push(who); }
        } else {
            ctx.register_send_failure(who);
        }
        if distinct.contains(&who) && !settled.contains(&who) { settled.push(who); }
    }
}

// ------------------------------------------------------------------------------------------ C20
use litep2p::protocol::libp2p::bitswap::verif_hooks as bitswap_hooks;

/// C20 kernel: response batching — size-bounded, order-preserving, loses only oversized blocks.
pub fn c20_batching(nd: &mut Nondet) {
    let max = nd.usize("max_batch");
    assume(max <= 1 << 22);
    let n = 1 + nd.choose("n_blocks", 3) as usize;
    let mut sizes: Vec<usize> = Vec::new();
    let mut queue: VecDeque<(cid::Cid, Vec<u8>)> = VecDeque::new();
    for _ in 0..n {
        let len = nd.usize("block_len");
        assume(len <= 1 << 23);
        sizes.push(len);
        let c = nd.cid("cid");
        queue.push_back((c, nd.blob(len)));
    }
    // reference: walk the size list
    let mut sent: Vec<usize> = Vec::new();
    let mut rounds = 0;
    while let Some(batch) = bitswap_hooks::extract_next_batch_sizes(&mut queue, max) {
        rounds += 1;
        check("c20.rounds-bounded", rounds <= 3);
        let total: usize = batch.iter().sum();
        check("c20.batch-within-limit", total <= max);
        check("c20.batch-not-empty", !batch.is_empty());
        for s in batch.iter() { sent.push(*s); }
        // maximality: the next queued block (if any) would not have fitted
        if let Some((_, next)) = queue.front() {
            check("c20.batch-maximal", next.len() > max || total + next.len() > max);
        }
        cover("c20.batch");
    }
    let expected: Vec<usize> = sizes.iter().copied().filter(|s| *s <= max).collect();
    check("c20.every-fitting-block-sent-once-in-order", sent == expected);
    check("c20.queue-drained", queue.is_empty());
}

// ------------------------------------------------------------------------------------------ C17
use litep2p::protocol::libp2p::kademlia::store::{MemoryStore, MemoryStoreConfig};
use litep2p::protocol::libp2p::kademlia::Record;
use std::time::{Duration, Instant};

#[derive(Clone)]
struct RefRecord { key: u8, len: usize, expiry: Option<i64> }   // expiry in seconds relative to "now"

/// C17 kernel (records): bounded count and size, no expired record returned, newer-expiry rule.
pub fn c17_store_records(nd: &mut Nondet) {
    let max_records = nd.choose("max_records", 3) as usize;
    let max_size = nd.usize("max_size");
    assume(max_size <= 64);
    let config = MemoryStoreConfig {
        max_records,
        max_record_size_bytes: max_size,
        max_provider_keys: 1,
        max_provider_addresses: 1,
        max_providers_per_key: 1,
        provider_refresh_interval: Duration::from_secs(3600),
        provider_ttl: Duration::from_secs(3600),
    };
    let mut store = MemoryStore::with_config(nd.peer_id("local"), config);
    let now = Instant::now();
    let mut reference: Vec<RefRecord> = Vec::new();
    let steps = param("steps", 3);
    for _ in 0..steps {
        let key = nd.choose("key", 2) as u8;
        let rkey = RecordKey::from(vec![key]);
        if nd.bool("op_put") {
            let len = nd.usize("value_len");
            assume(len <= 64);
            // expiry: none, already past, soon, later  (relative seconds)
            let expiry = match nd.choose("expiry", 4) { 0 => None, 1 => Some(-10i64), 2 => Some(100), _ => Some(200) };
            let mut record = Record::new(rkey, nd.blob(len));
            record.expires = expiry.map(|s| if s < 0 { now - Duration::from_secs((-s) as u64) } else { now + Duration::from_secs(s as u64) });
            // who published it plays no role in what the store keeps
            if nd.bool("has_publisher") { record.publisher = Some(nd.peer_id_fixed(7)); }
            store.put(record);
            // reference semantics
            if len < max_size {
                if let Some(pos) = reference.iter().position(|r| r.key == key) {
                    let replace = match (reference[pos].expiry, expiry) { (Some(old), Some(new)) => !(old > new), _ => true };
                    if replace { reference[pos] = RefRecord { key, len, expiry }; }
                } else if reference.len() < max_records {
                    reference.push(RefRecord { key, len, expiry });
                }
            }
            cover("c17.put");
        } else {
            let got = store.get(&rkey).map(|r| r.value.len());
            let expect = match reference.iter().position(|r| r.key == key) {
                Some(pos) => {
                    let expired = matches!(reference[pos].expiry, Some(s) if s <= 0);
                    if expired { reference.remove(pos); None } else { Some(reference[pos].len) }
                }
                None => None,
            };
            check("c17.get-matches-reference-store", got == expect);
            cover("c17.get");
        }
        check("c17.record-count-bounded", reference.len() <= max_records);
    }
}

// ------------------------------------------------------------------------------------------ C03/C19
use bytes::BytesMut;
use litep2p::multistream_select::protocol::Message;

/// C03-H1 / C19 kernel: the multistream message decoder is total, and what it accepts re-encodes
/// to something that decodes to the same message.
pub fn c19_multistream_decode(nd: &mut Nondet) {
    let max = param("max_len", 5);
    let n = nd.choose("len", max + 1) as usize;
    let mut raw: Vec<u8> = Vec::new();
    for _ in 0..n { raw.push(nd.u8("byte")); }
    match Message::decode(Bytes::from(raw)) {
        Err(_) => cover("c19.rejected"),
        Ok(message) => {
            cover("c19.accepted");
            let mut out = BytesMut::new();
            check("c19.accepted-message-encodes", message.encode(&mut out).is_ok());
            check("c19.encoded_len-is-exact", message.encoded_len() == out.len());
            match Message::decode(out.freeze()) {
                Ok(again) => check("c19.decode-encode-decode-is-stable", again == message),
                Err(_) => check("c19.own-encoding-must-decode", false),
            }
        }
    }
}

// ------------------------------------------------------------------------------------------ C05/C06 k-step
use std::net::Ipv4Addr;
use multiaddr::Multiaddr;

fn same_ids(a: &[ConnectionId], b: &[ConnectionId]) -> bool { a.len() == b.len() && a.iter().all(|x| b.contains(x)) }

const NPEERS: usize = 2;

/// transport-side ledger of the scripted environment
struct TransportWorld {
    nd: *mut Nondet,
    calls: Vec<TransportCall>,
}

#[derive(Clone)]
struct Attempt { id: ConnectionId, peer: usize, address: Option<Multiaddr>, reported: u8 }
#[derive(Clone, Copy, PartialEq)]
struct LiveConn { id: ConnectionId, peer: usize, inbound: bool }

fn peer_address(i: usize, peer: PeerId) -> Multiaddr {
    Multiaddr::empty().with(Protocol::Ip4(Ipv4Addr::new(10, 0, 0, i as u8 + 1))).with(Protocol::Tcp(4000)).with(Protocol::P2p(peer.into()))
}

fn remove_attempt(list: &mut Vec<Attempt>, id: ConnectionId) -> Option<Attempt> {
    let pos = list.iter().position(|a| a.id == id)?;
    Some(list.remove(pos))
}

/// C05 + C06: every bounded schedule of dial requests and transport events from a fresh manager, against a
/// ledger of attempts, live connections and reported outcomes.
pub fn c05_manager_steps(nd: &mut Nondet) {
    let max_in = match nd.choose("max_in", 3) { 0 => None, 1 => Some(0usize), _ => Some(1usize) };
    let max_out = match nd.choose("max_out", 3) { 0 => None, 1 => Some(1usize), _ => Some(2usize) };
    let mut manager = TransportManagerBuilder::new()
        .with_connection_limits_config(ConnectionLimitsConfig::default().max_incoming_connections(max_in).max_outgoing_connections(max_out))
        .build();
    let mut world = TransportWorld { nd: nd as *mut Nondet, calls: Vec::new() };
    let wp = &mut world as *mut TransportWorld as usize;
    hooks::register_scripted_tcp(&mut manager, Box::new(move |call: TransportCall| {
        let world = unsafe { &mut *(wp as *mut TransportWorld) };
        world.calls.push(call);
        match call {
            // the manager handles a refused `negotiate` explicitly (the raw connection may have vanished)
            TransportCall::Negotiate(_) => { let nd = unsafe { &mut *world.nd }; nd.bool("negotiate_ok") }
            _ => true,
        }
    }));
    let local = hooks::local_peer_id(&manager);
    let mut peers: Vec<PeerId> = Vec::new();
    for i in 0..NPEERS {
        let p = nd.peer_id_fixed(i as u8 + 1);
        assume(p != local);
        hooks::add_address(&mut manager, p, peer_address(i, p), 0);
        peers.push(p);
    }

    let mut raw_open: Vec<Attempt> = Vec::new();    // open() called, no ConnectionOpened/OpenFailure yet
    let mut dialing: Vec<Attempt> = Vec::new();     // dial()/negotiate() called, no Established/DialFailure yet
    let mut live: Vec<LiveConn> = Vec::new();       // accepted and not closed
    let mut inbound_pending = 0usize;               // inbound sockets admitted, still negotiating
    let mut ghost_in = 0usize;                      // counted connections of peers outside the model
    let mut ghost_out = 0usize;

    if param("arbitrary_start", 0) == 1 {
        // inductive form: any manager state that satisfies the representation invariant checked below
        for i in 0..NPEERS {
            let p = peers[i];
            let shape = nd.choose("shape", 7);
            let mut new_conn = |manager: &mut litep2p::transport::manager::TransportManager, live: &mut Vec<LiveConn>, nd: &mut Nondet| -> ConnectionRecord {
                let id = hooks::next_connection_id(manager);
                let inbound = nd.bool("conn_inbound");
                let counted = if inbound { max_in.is_some() } else { max_out.is_some() };
                if counted { hooks::accept_counted(manager, id, inbound); }
                live.push(LiveConn { id, peer: i, inbound });
                ConnectionRecord { address: peer_address(i, p), connection_id: id }
            };
            let mut new_dial = |manager: &mut litep2p::transport::manager::TransportManager, dialing: &mut Vec<Attempt>| -> ConnectionRecord {
                let id = hooks::next_connection_id(manager);
                hooks::insert_pending(manager, id, p);
                dialing.push(Attempt { id, peer: i, address: Some(peer_address(i, p)), reported: 0 });
                ConnectionRecord { address: peer_address(i, p), connection_id: id }
            };
            let state = match shape {
                0 => PeerState::Disconnected { dial_record: None },
                1 => PeerState::Disconnected { dial_record: Some(new_dial(&mut manager, &mut dialing)) },
                2 => PeerState::Dialing { dial_record: new_dial(&mut manager, &mut dialing) },
                3 => {
                    let id = hooks::next_connection_id(&mut manager);
                    hooks::insert_pending(&mut manager, id, p);
                    raw_open.push(Attempt { id, peer: i, address: None, reported: 0 });
                    let mut addresses = std::collections::HashSet::new();
                    addresses.insert(peer_address(i, p));
                    let mut transports = std::collections::HashSet::new();
                    transports.insert(litep2p::transport::manager::types::SupportedTransport::Tcp);
                    PeerState::Opening { addresses, connection_id: id, transports }
                }
                4 => PeerState::Connected { record: new_conn(&mut manager, &mut live, nd), secondary: None },
                5 => {
                    let record = new_conn(&mut manager, &mut live, nd);
                    PeerState::Connected { record, secondary: Some(SecondaryOrDialing::Dialing(new_dial(&mut manager, &mut dialing))) }
                }
                _ => {
                    let record = new_conn(&mut manager, &mut live, nd);
                    let second = new_conn(&mut manager, &mut live, nd);
                    PeerState::Connected { record, secondary: Some(SecondaryOrDialing::Secondary(second)) }
                }
            };
            hooks::set_peer_state(&mut manager, p, state);
        }
        // connections of other peers that occupy limit slots, and inbound sockets still negotiating
        if max_in.is_some() { ghost_in = nd.choose("ghost_in", 2) as usize; }
        if max_out.is_some() { ghost_out = nd.choose("ghost_out", 3) as usize; }
        for _ in 0..ghost_in { let id = hooks::next_connection_id(&mut manager); hooks::accept_counted(&mut manager, id, true); }
        for _ in 0..ghost_out { let id = hooks::next_connection_id(&mut manager); hooks::accept_counted(&mut manager, id, false); }
        inbound_pending = nd.choose("inbound_pending", 2) as usize;
        let (cin, cout) = hooks::counted(&manager);
        if let Some(m) = max_in { assume(cin <= m); }
        if let Some(m) = max_out { assume(cout <= m); }
        cover("arbitrary-start");
    }
    let mut concluded_without_report = 0usize;

    let steps = param("steps", 3);
    for _ in 0..steps {
        world.calls.clear();
        match nd.choose("event", 7) {
            0 => {
                let i = nd.choose("peer", NPEERS as u64) as usize;
                let before = (raw_open.len(), dialing.len());
                let had_capacity = match max_out { None => true, Some(m) => hooks::counted(&manager).1 < m };
                let dialable = hooks::can_dial_now(&manager, &peers[i]);
                match hooks::dial_now(&mut manager, peers[i]) {
                    None => check("c05.dial-never-suspends", false),
                    Some(true) => {
                        cover("dial.ok");
                        let opened = world.calls.iter().filter(|c| matches!(c, TransportCall::Open(_))).count();
                        if dialable {
                            check("c05.accepted-dial-of-idle-peer-makes-an-attempt", opened == 1);
                        } else {
                            check("c05.dial-in-progress-makes-no-second-attempt", opened == 0);
                        }
                        check("c06.dial-respects-outbound-capacity", had_capacity);
                    }
                    Some(false) => {
                        cover("dial.err");
                        check("c05.refused-dial-makes-no-attempt", world.calls.is_empty());
                        check("c05.refused-dial-leaves-state", hooks::can_dial_now(&manager, &peers[i]) == dialable);
                        // an idle peer with a known address and free capacity must be dialable
                        check("c05.idle-peer-with-address-and-capacity-is-dialed", !(dialable && had_capacity));
                    }
                }
                for c in world.calls.iter() {
                    if let TransportCall::Open(id) = c { raw_open.push(Attempt { id: *id, peer: i, address: None, reported: 0 }); }
                }
                let _ = before;
            }
            1 => {
                let i = nd.choose("peer", NPEERS as u64) as usize;
                let dialable = hooks::can_dial_now(&manager, &peers[i]);
                let had_capacity = match max_out { None => true, Some(m) => hooks::counted(&manager).1 < m };
                let address = peer_address(i, peers[i]);
                match hooks::dial_address_now(&mut manager, address.clone()) {
                    None => check("c05.dial_address-never-suspends", false),
                    Some(true) => {
                        cover("dial_address.ok");
                        let dialed = world.calls.iter().filter(|c| matches!(c, TransportCall::Dial(_))).count();
                        if dialable { check("c05.accepted-dial_address-of-idle-peer-makes-an-attempt", dialed == 1); }
                        else { check("c05.dial_address-in-progress-makes-no-second-attempt", dialed == 0); }
                        check("c06.dial_address-respects-outbound-capacity", had_capacity);
                    }
                    Some(false) => {
                        cover("dial_address.err");
                        check("c05.refused-dial_address-makes-no-attempt", world.calls.is_empty());
                        check("c05.refused-dial_address-leaves-state", hooks::can_dial_now(&manager, &peers[i]) == dialable);
                    }
                }
                for c in world.calls.iter() {
                    if let TransportCall::Dial(id) = c { dialing.push(Attempt { id: *id, peer: i, address: Some(address.clone()), reported: 0 }); }
                }
            }
            2 => {
                // a raw open attempt resolves
                if raw_open.is_empty() { assume(false); }
                let k = nd.choose("which_open", raw_open.len() as u64) as usize;
                let attempt = raw_open.remove(k);
                if nd.bool("open_succeeds") {
                    cover("open.opened");
                    let address = peer_address(attempt.peer, peers[attempt.peer]);
                    let ok = hooks::on_connection_opened(&mut manager, attempt.id, address.clone());
                    let negotiated = world.calls.iter().any(|c| *c == TransportCall::Negotiate(attempt.id));
                    check("c05.opened-attempt-is-negotiated", negotiated);
                    if ok {
                        dialing.push(Attempt { id: attempt.id, peer: attempt.peer, address: Some(address), reported: 0 });
                    } else {
                        // only a refused `negotiate` may fail the handler; the attempt is over and (invariants below)
                        // the peer must not stay in a dialing state
                        cover("open.negotiate-refused");
                    }
                } else {
                    cover("open.failed");
                    match hooks::on_open_failure(&mut manager, attempt.id) {
                        Ok(Some(p)) => check("c05.open-failure-names-the-dialed-peer", p == peers[attempt.peer]),
                        Ok(None) => check("c05.single-transport-open-failure-is-final", false),
                        Err(()) => check("c05.open-failure-is-routable", false),
                    }
                }
            }
            3 => {
                // a dial / negotiation resolves
                if dialing.is_empty() { assume(false); }
                let k = nd.choose("which_dial", dialing.len() as u64) as usize;
                let attempt = dialing.remove(k);
                let address = attempt.address.clone().expect("dialing attempts have an address");
                if nd.bool("dial_succeeds") {
                    let endpoint = Endpoint::Dialer { address, connection_id: attempt.id };
                    let peer_live = live.iter().filter(|c| c.peer == attempt.peer).count();
                    let out_before = hooks::counted(&manager).1;
                    match hooks::on_connection_established(&mut manager, peers[attempt.peer], &endpoint) {
                        Ok(true) => {
                            cover("dialed.accept");
                            check("c06.accept-only-below-outbound-limit", match max_out { None => true, Some(m) => out_before < m });
                            check("c06.accept-only-with-free-peer-slot", peer_live < 2);
                            // glue of `TransportManager::next`: `Transport::accept` may fail, then the handler's
                            // effects are rolled back by simulating a closed connection
                            if nd.bool("accept_ok") {
                                live.push(LiveConn { id: attempt.id, peer: attempt.peer, inbound: false });
                            } else {
                                cover("dialed.accept-rollback");
                                let _ = hooks::on_connection_closed(&mut manager, peers[attempt.peer], attempt.id);
                            }
                        }
                        Ok(false) => {
                            cover("dialed.reject");
                            let limit_hit = match max_out { None => false, Some(m) => out_before >= m };
                            check("c06.reject-only-for-a-reason", limit_hit || peer_live >= 2);
                            if limit_hit { cover("dialed.reject.limit"); concluded_without_report += 1; }
                        }
                        Err(()) => check("c05.established-dial-is-routable", false),
                    }
                } else {
                    cover("dialed.failure");
                    check("c05.dial-failure-is-routable-and-reported", hooks::on_dial_failure(&mut manager, attempt.id));
                }
            }
            4 => {
                // a remote opens a TCP connection: admitted or refused by the inbound limit before negotiation
                let in_before = hooks::counted(&manager).0;
                let admitted = hooks::on_pending_incoming_connection(&mut manager);
                check("c06.pending-inbound-admitted-iff-below-limit", admitted == match max_in { None => true, Some(m) => in_before < m });
                if admitted { cover("inbound.admitted"); inbound_pending += 1; } else { cover("inbound.limit"); }
            }
            5 => {
                // an admitted inbound connection finished negotiating: it turns out to be peer i
                if inbound_pending == 0 { assume(false); }
                inbound_pending -= 1;
                let i = nd.choose("peer", NPEERS as u64) as usize;
                let id = hooks::next_connection_id(&mut manager);
                let address = Multiaddr::empty().with(Protocol::Ip4(Ipv4Addr::new(10, 0, 1, i as u8 + 1))).with(Protocol::Tcp(5000));
                let endpoint = Endpoint::Listener { address, connection_id: id };
                let peer_live = live.iter().filter(|c| c.peer == i).count();
                let in_before = hooks::counted(&manager).0;
                let pre = hooks::peer_state(&manager, &peers[i]).expect("peer context exists");
                match hooks::on_connection_established(&mut manager, peers[i], &endpoint) {
                    Ok(true) => {
                        cover("inbound.accept");
                        check("c06.inbound-accept-only-with-free-peer-slot", peer_live < 2);
                        check("c06.inbound-accept-only-below-limit", match max_in { None => true, Some(m) => in_before < m });
                        if nd.bool("accept_ok") {
                            live.push(LiveConn { id, peer: i, inbound: true });
                        } else {
                            cover("inbound.accept-rollback");
                            let _ = hooks::on_connection_closed(&mut manager, peers[i], id);
                        }
                    }
                    Ok(false) => {
                        cover("inbound.reject");
                        let limit_hit = match max_in { None => false, Some(m) => in_before >= m };
                        if limit_hit { cover("inbound.reject.limit"); }
                        // a third connection, or a connection racing an outstanding secondary dial
                        let has_dial = dialing.iter().any(|a| a.peer == i) || raw_open.iter().any(|a| a.peer == i);
                        check("c06.inbound-reject-only-for-a-reason", limit_hit || peer_live >= 2 || (peer_live == 1 && has_dial));
                        // surplus connections are rejected without disturbing existing ones or dials in flight
                        let post = hooks::peer_state(&manager, &peers[i]).expect("peer context exists");
                        check("c06.rejected-inbound-leaves-peer-state-untouched", post == pre);
                    }
                    Err(()) => check("c05.inbound-established-is-handled", false),
                }
            }
            _ => {
                if live.is_empty() { assume(false); }
                let k = nd.choose("which_conn", live.len() as u64) as usize;
                let conn = live.remove(k);
                let last = !live.iter().any(|c| c.peer == conn.peer);
                let reported = hooks::on_connection_closed(&mut manager, peers[conn.peer], conn.id);
                cover("closed");
                check("c07.closed-reported-iff-last-connection", reported == last);
            }
        }
        // cancellations requested by the manager end the attempt silently (no further transport event)
        for c in world.calls.iter() {
            if let TransportCall::Cancel(id) = c { remove_attempt(&mut raw_open, *id); }
        }

        // ---- invariants after every step
        for i in 0..NPEERS {
            let st = hooks::peer_state(&manager, &peers[i]).expect("peer context exists");
            let est = established(&st);
            let mine: Vec<ConnectionId> = live.iter().filter(|c| c.peer == i).map(|c| c.id).collect();
            check("c06.at-most-two-connections-per-peer", mine.len() <= 2);
            check("c06.peer-state-tracks-exactly-the-live-connections", same_ids(&est, &mine));
            let outstanding: Vec<ConnectionId> = raw_open.iter().chain(dialing.iter()).filter(|a| a.peer == i).map(|a| a.id).collect();
            let state_dial = match &st { PeerState::Opening { connection_id, .. } => Some(*connection_id), other => dial_id(other) };
            if let Some(d) = state_dial {
                check("c05.no-wedge: dial id in the peer state has an outstanding attempt", outstanding.contains(&d));
                check("c05.no-wedge: dial id in the peer state is routable", hooks::pending_peer(&manager, &d) == Some(peers[i]));
            }
            for d in outstanding.iter() {
                check("c05.outstanding-attempt-is-routable", hooks::pending_peer(&manager, d) == Some(peers[i]));
            }
            if mine.is_empty() && outstanding.is_empty() {
                check("c05.idle-peer-is-dialable", hooks::can_dial_now(&manager, &peers[i]));
            }
        }
        let (cin, cout) = hooks::counted(&manager);
        if let Some(m) = max_in { check("c06.inbound-limit-never-exceeded", cin <= m); check("c06.inbound-count-is-live-inbound", cin == ghost_in + live.iter().filter(|c| c.inbound).count()); }
        if let Some(m) = max_out { check("c06.outbound-limit-never-exceeded", cout <= m); check("c06.outbound-count-is-live-outbound", cout == ghost_out + live.iter().filter(|c| !c.inbound).count()); }
        check("c05.pending-map-has-no-orphans", hooks::pending_len(&manager) == raw_open.len() + dialing.len());
    }
    let _ = concluded_without_report;
}

// ------------------------------------------------------------------------------------------ C05/C06/C07 through the real `TransportManager::next()`
use litep2p::transport::manager::verif_hooks::{LoopOutcome, ScriptedEvent};

struct LoopWorld { nd: *mut Nondet, calls: Vec<TransportCall>, refused: Vec<TransportCall>, queue: VecDeque<ScriptedEvent> }

/// one dial attempt as the user and the transport see it
struct Try {
    id: ConnectionId, peer: usize, addresses: Vec<Multiaddr>,
    stage: u8,          // 0: open() called, 1: dial()/negotiate() called, 2: concluded by the transport, 3: cancelled by the manager
    failures: u8,       // failure events the user saw for this attempt
    announced: bool,    // the user saw this attempt's connection established
    excused: bool,      // the environment refused negotiate/accept/notify for it (shutdown-type faults)
    limit_rejected: bool, // its established connection was turned away because the outbound limit was reached meanwhile
    settled: bool,      // the outcome ledger was checked when the attempt concluded
}
struct LoopConn { id: ConnectionId, peer: usize, inbound: bool, live: bool, announced: bool }

/// C05 + C06 + C07 (manager side), end to end through the event loop: user commands enter through the real
/// `TransportManagerHandle`, transport events through a scripted transport's stream, closures through the
/// manager's event channel, and the user-visible `TransportEvent`s returned by `TransportManager::next()`
/// are checked against a ledger of attempts and connections.
pub fn c05_manager_loop(nd: &mut Nondet) {
    let max_in = match nd.choose("max_in", 3) { 0 => None, 1 => Some(0usize), _ => Some(1usize) };
    let max_out = match nd.choose("max_out", 3) { 0 => None, 1 => Some(1usize), _ => Some(2usize) };
    let mut manager = TransportManagerBuilder::new()
        .with_connection_limits_config(ConnectionLimitsConfig::default().max_incoming_connections(max_in).max_outgoing_connections(max_out))
        .build();
    let faults = param("env_faults", 1) == 1;
    let mut world = LoopWorld { nd: nd as *mut Nondet, calls: Vec::new(), refused: Vec::new(), queue: VecDeque::new() };
    let wp = &mut world as *mut LoopWorld as usize;
    hooks::register_scripted_tcp_with_events(&mut manager,
        Box::new(move |call: TransportCall| {
            let world = unsafe { &mut *(wp as *mut LoopWorld) };
            world.calls.push(call);
            let nd = unsafe { &mut *world.nd };
            let ok = match call {
                TransportCall::Negotiate(_) => if faults { nd.bool("negotiate_ok") } else { true },
                TransportCall::Accept(_) => if faults { nd.bool("accept_ok") } else { true },
                TransportCall::Notify(_) => if faults { nd.bool("notify_ok") } else { true },
                _ => true,
            };
            if !ok { world.refused.push(call); }
            ok
        }),
        Box::new(move || { let world = unsafe { &mut *(wp as *mut LoopWorld) }; world.queue.pop_front() }));
    let handle = manager.transport_manager_handle();
    // one installed protocol: it must hear about every failed dial the user hears about
    let mut protocol = manager.register_protocol(
        ProtocolName::from("/verif/loop"), Vec::new(), ProtocolCodec::UnsignedVarint(None), Duration::from_secs(5),
        litep2p::protocol::transport_service::SubstreamKeepAlive::Yes);
    let proto_waker = noop_waker();
    let mut proto_cx = Context::from_waker(&proto_waker);
    let local = hooks::local_peer_id(&manager);
    let mut peers: Vec<PeerId> = Vec::new();
    for i in 0..NPEERS {
        let p = nd.peer_id_fixed(i as u8 + 1);
        assume(p != local);
        hooks::add_address(&mut manager, p, peer_address(i, p), 0);
        peers.push(p);
    }
    let mut tries: Vec<Try> = Vec::new();
    let mut conns: Vec<LoopConn> = Vec::new();
    let mut user_open = [0usize; NPEERS];        // connections the user was told about and that were not reported closed since
    let mut inbound_pending = 0usize;

    let steps = param("steps", 3);
    // `warm` leading steps are fixed: peer 0, 1, .. is dialed by address (histories that start with dials in flight)
    let warm = param("warm_dials", 0);
    for step in 0..(steps + warm) {
        world.calls.clear();
        world.refused.clear();
        let mut new_conn: Option<ConnectionId> = None;
        let mut inbound_probe: Option<(ConnectionId, usize)> = None;
        let mut dial_request: Option<(usize, bool, bool, bool)> = None;    // (peer, by address, peer was idle, outbound capacity)
        let forced = step < warm;
        match if forced { 0 } else { nd.choose("event", 6) } {
            0 => {
                let i = if forced { (step as usize) % NPEERS } else { nd.choose("peer", NPEERS as u64) as usize };
                let by_address = if forced { true } else { nd.bool("by_address") };
                let idle = hooks::can_dial_now(&manager, &peers[i]);
                let capacity = match max_out { None => true, Some(m) => hooks::counted(&manager).1 < m };
                let accepted = if by_address { handle.dial_address(peer_address(i, peers[i])).is_ok() } else { handle.dial(&peers[i]).is_ok() };
                if accepted { cover("c05l.dial.accepted"); dial_request = Some((i, by_address, idle, capacity)); } else { cover("c05l.dial.refused"); }
            }
            1 => {
                let open: Vec<usize> = (0..tries.len()).filter(|k| tries[*k].stage == 0).collect();
                if open.is_empty() { assume(false); }
                let k = open[nd.choose("which_open", open.len() as u64) as usize];
                if nd.bool("open_succeeds") {
                    cover("c05l.open.opened");
                    world.queue.push_back(ScriptedEvent::ConnectionOpened { connection_id: tries[k].id, address: tries[k].addresses[0].clone() });
                    tries[k].stage = 1;
                } else {
                    cover("c05l.open.failed");
                    // the transports report the addresses that failed; when their overall deadline fires before any single
                    // address attempt has finished the list is empty
                    let addresses = if nd.bool("open_failure_lists_addresses") { tries[k].addresses.clone() } else { cover("c05l.open.failed-without-errors"); Vec::new() };
                    world.queue.push_back(ScriptedEvent::OpenFailure { connection_id: tries[k].id, addresses });
                    tries[k].stage = 2;
                }
            }
            2 => {
                let dialing: Vec<usize> = (0..tries.len()).filter(|k| tries[*k].stage == 1).collect();
                if dialing.is_empty() { assume(false); }
                let k = dialing[nd.choose("which_dial", dialing.len() as u64) as usize];
                let address = tries[k].addresses[0].clone();
                tries[k].stage = 2;
                if nd.bool("dial_succeeds") {
                    cover("c05l.dial.established");
                    let endpoint = Endpoint::Dialer { address, connection_id: tries[k].id };
                    world.queue.push_back(ScriptedEvent::ConnectionEstablished { peer: peers[tries[k].peer], endpoint });
                    conns.push(LoopConn { id: tries[k].id, peer: tries[k].peer, inbound: false, live: false, announced: false });
                    new_conn = Some(tries[k].id);
                } else {
                    cover("c05l.dial.failed");
                    world.queue.push_back(ScriptedEvent::DialFailure { connection_id: tries[k].id, address });
                }
            }
            3 => {
                let id = hooks::next_connection_id(&mut manager);
                world.queue.push_back(ScriptedEvent::PendingInboundConnection { connection_id: id });
                inbound_probe = Some((id, hooks::counted(&manager).0));
            }
            4 => {
                if inbound_pending == 0 { assume(false); }
                inbound_pending -= 1;
                let i = nd.choose("peer", NPEERS as u64) as usize;
                let id = hooks::next_connection_id(&mut manager);
                let address = Multiaddr::empty().with(Protocol::Ip4(Ipv4Addr::new(10, 0, 1, i as u8 + 1))).with(Protocol::Tcp(5000));
                world.queue.push_back(ScriptedEvent::ConnectionEstablished { peer: peers[i], endpoint: Endpoint::Listener { address, connection_id: id } });
                conns.push(LoopConn { id, peer: i, inbound: true, live: false, announced: false });
                new_conn = Some(id);
                cover("c05l.inbound.established");
            }
            _ => {
                let live: Vec<usize> = (0..conns.len()).filter(|k| conns[*k].live).collect();
                if live.is_empty() { assume(false); }
                let k = live[nd.choose("which_conn", live.len() as u64) as usize];
                conns[k].live = false;
                check("c07l.manager-accepts-the-closed-report", hooks::report_connection_closed(&manager, peers[conns[k].peer], conns[k].id));
                cover("c05l.closed");
            }
        }

        // ---- run the manager until it has nothing more to do; every user-visible event goes through the ledger
        let mut user_failures: Vec<(usize, Vec<Multiaddr>)> = Vec::new();     // (peer, addresses) of the failure events of this step
        let mut spins = 0;
        loop {
            spins += 1;
            if spins > 8 { check("c05l.manager-loop-quiesces", false); return; }
            match hooks::next_now(&mut manager) {
                LoopOutcome::Pending => break,
                LoopOutcome::Ended => { check("c05l.manager-loop-keeps-running", false); return; }
                LoopOutcome::Other => { check("c05l.only-documented-user-events", false); return; }
                LoopOutcome::ConnectionEstablished { peer, endpoint } => {
                    cover("c05l.user.established");
                    let id = endpoint.connection_id();
                    match conns.iter().position(|c| c.id == id) {
                        None => { check("c07l.established-event-belongs-to-a-connection", false); return; }
                        Some(k) => {
                            check("c07l.established-event-names-the-peer", peers[conns[k].peer] == peer);
                            check("c07l.established-event-is-not-repeated", !conns[k].announced);
                            conns[k].announced = true;
                            user_open[conns[k].peer] += 1;
                        }
                    }
                    if let Some(t) = tries.iter_mut().find(|t| t.id == id) {
                        check("c05l.never-both-failure-and-connection-for-one-attempt", t.failures == 0);
                        t.announced = true;
                    }
                }
                LoopOutcome::ConnectionClosed { peer, .. } => {
                    cover("c05l.user.closed");
                    let i = if peer == peers[0] { 0 } else { 1 };
                    check("c07l.closed-event-names-a-known-peer", peer == peers[i]);
                    check("c07l.closed-event-only-after-an-established-event", user_open[i] > 0);
                    check("c07l.closed-event-only-when-the-last-connection-is-gone", !conns.iter().any(|c| c.peer == i && c.live));
                    user_open[i] = 0;
                }
                LoopOutcome::DialFailure { connection_id, address } => {
                    cover("c05l.user.dial-failure");
                    match tries.iter_mut().find(|t| t.id == connection_id) {
                        None => { check("c05l.failure-report-belongs-to-an-attempt", false); return; }
                        Some(t) => {
                            check("c05l.failure-report-names-the-dialed-address", t.addresses.contains(&address));
                            check("c05l.no-duplicate-failure-report", t.failures == 0);
                            check("c05l.never-both-failure-and-connection-for-one-attempt", !t.announced);
                            check("c05l.failure-report-only-after-the-transport-gave-up", t.stage == 2);
                            t.failures += 1;
                            user_failures.push((t.peer, vec![address.clone()]));
                        }
                    }
                }
                LoopOutcome::OpenFailure { connection_id, addresses } => {
                    cover("c05l.user.open-failure");
                    match tries.iter_mut().find(|t| t.id == connection_id) {
                        None => { check("c05l.failure-report-belongs-to-an-attempt", false); return; }
                        Some(t) => {
                            check("c05l.open-failure-names-only-dialed-addresses", addresses.iter().all(|a| t.addresses.contains(a)));
                            check("c05l.no-duplicate-failure-report", t.failures == 0);
                            check("c05l.never-both-failure-and-connection-for-one-attempt", !t.announced);
                            check("c05l.failure-report-only-after-the-transport-gave-up", t.stage == 2);
                            t.failures += 1;
                            user_failures.push((t.peer, addresses.clone()));
                        }
                    }
                }
            }
        }
        check("c05l.transport-events-are-consumed", world.queue.is_empty());
        // ---- what the installed protocol heard in this step: exactly the failures the user heard, same peer and addresses
        let mut heard: Vec<(PeerId, Vec<Multiaddr>)> = Vec::new();
        let mut polls = 0;
        loop {
            polls += 1;
            if polls > 6 { break; }
            match Pin::new(&mut protocol).poll_next(&mut proto_cx) {
                Poll::Ready(Some(litep2p::protocol::TransportEvent::DialFailure { peer, addresses })) => heard.push((peer, addresses)),
                Poll::Ready(Some(_)) => { check("c05l.protocol-hears-only-dial-failures-from-the-manager", false); }
                Poll::Ready(None) => { check("c05l.protocol-channel-stays-open", false); break; }
                Poll::Pending => break,
            }
        }
        check("c05l.protocols-hear-exactly-the-failures-the-user-hears", heard.len() == user_failures.len());
        for k in 0..heard.len().min(user_failures.len()) {
            check("c05l.protocol-failure-names-the-dialed-peer-and-addresses", heard[k].0 == peers[user_failures[k].0] && heard[k].1 == user_failures[k].1);
            cover("c05l.protocol.dial-failure");
        }

        // ---- what the manager asked of the transport in this step
        let mut accept_refused = false;
        let mut notify_refused = false;
        for c in world.calls.clone().iter() {
            match c {
                TransportCall::Open(id) => {
                    if let Some((i, _, _, _)) = dial_request {
                        tries.push(Try { id: *id, peer: i, addresses: vec![peer_address(i, peers[i])], stage: 0, failures: 0, announced: false, excused: false, limit_rejected: false, settled: false });
                    } else { check("c05l.open-only-on-request", false); }
                }
                TransportCall::Dial(id) => {
                    if let Some((i, _, _, _)) = dial_request {
                        tries.push(Try { id: *id, peer: i, addresses: vec![peer_address(i, peers[i])], stage: 1, failures: 0, announced: false, excused: false, limit_rejected: false, settled: false });
                    } else { check("c05l.dial-only-on-request", false); }
                }
                // only raw open attempts are cancelled for good (the manager also "cancels" the other transports' share of an
                // attempt right before it negotiates the opened connection)
                TransportCall::Cancel(id) => { if let Some(t) = tries.iter_mut().find(|t| t.id == *id) { if t.stage == 0 { t.stage = 3; } } }
                TransportCall::Accept(id) => { if Some(*id) != new_conn { check("c06l.accept-only-the-new-connection", false); } }
                TransportCall::Notify(id) => { if let Some(c) = conns.iter_mut().find(|c| c.id == *id) { c.live = true; } }
                TransportCall::Reject(id) => { if Some(*id) != new_conn { check("c06l.reject-only-the-new-connection", false); } }
                _ => {}
            }
        }
        if let Some(id) = new_conn {
            let accept_called = world.calls.iter().any(|c| *c == TransportCall::Accept(id));
            let notify_called = world.calls.iter().any(|c| *c == TransportCall::Notify(id));
            let rejected = world.calls.iter().any(|c| *c == TransportCall::Reject(id));
            let k = conns.iter().position(|c| c.id == id).expect("pushed above");
            accept_refused = world.refused.contains(&TransportCall::Accept(id));
            notify_refused = world.refused.contains(&TransportCall::Notify(id));
            if accept_refused || notify_refused { conns[k].live = false; cover("c05l.accept-rollback"); }
            check("c06l.new-connection-is-accepted-or-rejected", accept_called != rejected);
            check("c06l.notification-follows-a-granted-accept", notify_called == (accept_called && !accept_refused));
            if rejected {
                cover("c05l.rejected");
                let peer_live = conns.iter().filter(|c| c.peer == conns[k].peer && c.live).count();
                let (cin, cout) = hooks::counted(&manager);
                let limit_hit = if conns[k].inbound { matches!(max_in, Some(m) if cin >= m) } else { matches!(max_out, Some(m) if cout >= m) };
                let has_dial = tries.iter().any(|t| t.peer == conns[k].peer && t.stage < 2);
                check("c06l.reject-only-for-a-reason", limit_hit || peer_live >= 2 || (conns[k].inbound && peer_live == 1 && has_dial));
                if limit_hit && !conns[k].inbound { if let Some(t) = tries.iter_mut().find(|t| t.id == id) { t.limit_rejected = true; cover("c05l.rejected.outbound-limit"); } }
            }
            if accept_called && notify_called && !notify_refused {
                check("c07l.accepted-connection-is-announced-to-the-user", conns[k].announced);
            }
            if accept_refused || notify_refused {
                // shutdown-type faults of the environment: the attempt itself, and attempts the manager cancelled in favour
                // of the connection it then could not hand over, are outside the "never silent" claim
                if let Some(t) = tries.iter_mut().find(|t| t.id == id) { t.excused = true; }
                for c in world.calls.iter() {
                    if let TransportCall::Cancel(cancelled) = c { if let Some(t) = tries.iter_mut().find(|t| t.id == *cancelled) { t.excused = true; } }
                }
            }
        }
        if let Some((id, in_before)) = inbound_probe {
            let admitted = world.calls.iter().any(|c| *c == TransportCall::AcceptPending(id));
            let refused = world.calls.iter().any(|c| *c == TransportCall::RejectPending(id));
            check("c06l.pending-inbound-is-answered", admitted != refused);
            check("c06l.pending-inbound-admitted-iff-below-limit", admitted == match max_in { None => true, Some(m) => in_before < m });
            if admitted { inbound_pending += 1; cover("c05l.inbound.admitted"); }
        }
        if let Some((_, by_address, idle, capacity)) = dial_request {
            let attempts = world.calls.iter().filter(|c| matches!(c, TransportCall::Open(_) | TransportCall::Dial(_))).count();
            if idle && capacity { check("c05l.accepted-request-for-an-idle-peer-is-attempted", attempts == 1); }
            if !idle { check("c05l.request-while-busy-makes-no-second-attempt", attempts == 0); }
            if !capacity { check("c06l.no-attempt-without-outbound-capacity", attempts == 0); }
            let _ = by_address;
        }
        // a refused negotiate ends the attempt (the raw connection vanished)
        for c in world.calls.iter() {
            if let TransportCall::Negotiate(id) = c {
                let st = hooks::pending_peer(&manager, id);
                if st.is_none() { if let Some(t) = tries.iter_mut().find(|t| t.id == *id) { if t.stage == 1 { t.stage = 2; t.excused = true; cover("c05l.negotiate-refused"); } } }
            }
        }

        // ---- ledger: every concluded attempt has exactly one outcome, never silence
        let silence_check = param("silence_check", 1) == 1;
        for t in tries.iter_mut() {
            check("c05l.at-most-one-failure-report", t.failures <= 1);
            if t.stage >= 2 && !t.settled {
                t.settled = true;
                // the outcome: this attempt's failure report, or a connection with that peer known to the user
                let connected = t.announced || user_open[t.peer] > 0;
                if silence_check && !t.excused {
                    if t.limit_rejected {
                        check("c05l.dial-turned-away-by-the-outbound-limit-is-reported", t.failures == 1 || connected);
                    } else {
                        check("c05l.concluded-attempt-is-never-silent", t.failures == 1 || connected);
                    }
                }
            }
        }
        // ---- user view vs. connections
        for i in 0..NPEERS {
            let live = conns.iter().filter(|c| c.peer == i && c.live).count();
            check("c06l.at-most-two-connections-per-peer", live <= 2);
            if live == 0 { check("c07l.closed-event-is-emitted-when-the-last-connection-is-gone", user_open[i] == 0); }
            let st = hooks::peer_state(&manager, &peers[i]).expect("peer context exists");
            let mine: Vec<ConnectionId> = conns.iter().filter(|c| c.peer == i && c.live).map(|c| c.id).collect();
            check("c06l.peer-state-tracks-exactly-the-live-connections", same_ids(&established(&st), &mine));
            let outstanding: Vec<ConnectionId> = tries.iter().filter(|t| t.peer == i && t.stage < 2).map(|t| t.id).collect();
            let state_dial = match &st { PeerState::Opening { connection_id, .. } => Some(*connection_id), other => dial_id(other) };
            if let Some(d) = state_dial { check("c05l.no-wedge: dial id in the peer state has an outstanding attempt", outstanding.contains(&d)); }
            if mine.is_empty() && outstanding.is_empty() { check("c05l.idle-peer-is-dialable", hooks::can_dial_now(&manager, &peers[i])); }
        }
        let (cin, cout) = hooks::counted(&manager);
        if let Some(m) = max_in { check("c06l.inbound-limit-never-exceeded", cin <= m); check("c06l.inbound-count-is-live-inbound", cin == conns.iter().filter(|c| c.live && c.inbound).count()); }
        if let Some(m) = max_out { check("c06l.outbound-limit-never-exceeded", cout <= m); check("c06l.outbound-count-is-live-outbound", cout == conns.iter().filter(|c| c.live && !c.inbound).count()); }
        check("c05l.pending-map-has-no-orphans", hooks::pending_len(&manager) == tries.iter().filter(|t| t.stage < 2).count());
    }
}

// ------------------------------------------------------------------------------------------ C15 value / provider lookups
use litep2p::protocol::libp2p::kademlia::query::get_providers::{GetProvidersConfig, GetProvidersContext};
use litep2p::protocol::libp2p::kademlia::query::get_record::{GetRecordConfig, GetRecordContext};

struct Net { ids: Vec<PeerId>, dists: Vec<u8>, peers: Vec<KademliaPeer>, local: PeerId }

/// small network: pairwise distinct peers with ordered distinct distances to the target (symmetry reduction)
fn small_network(nd: &mut Nondet, n: usize) -> Net {
    let local = nd.peer_id("local");
    let mut ids: Vec<PeerId> = Vec::new();
    let mut dists: Vec<u8> = Vec::new();
    let mut peers: Vec<KademliaPeer> = Vec::new();
    let mut prev = 0u8;
    for _ in 0..n {
        let id = nd.peer_id("peer");
        for other in ids.iter() { assume(*other != id); }
        let d = nd.u8("dist");
        assume(d > prev);
        prev = d;
        ids.push(id);
        dists.push(d);
        peers.push(KademliaPeer::new_verif(id, key_bytes(d), ConnectionType::NotConnected));
    }
    if !nd.bool("local_in_network") { for id in ids.iter() { assume(*id != local); } }
    Net { ids, dists, peers, local }
}

/// C15 (value lookup): GetRecordContext against a ledger.
pub fn c15_get_record(nd: &mut Nondet) {
    const N: usize = 3;
    let net = small_network(nd, N);
    // symbolic (not forked) configuration: the solver splits only where the code compares against them
    let replication = nd.usize("replication");
    assume(replication >= 1 && replication <= 2);
    let parallelism = nd.usize("parallelism");
    assume(parallelism >= 1 && parallelism <= 2);
    let quorum = match nd.choose("quorum", 3) { 0 => Quorum::One, 1 => Quorum::All, _ => Quorum::N(NonZeroUsize::new(2).unwrap()) };
    let needed = match quorum { Quorum::One => 1, Quorum::All => replication, Quorum::N(k) => k.get() };
    let local_record = nd.bool("local_record");
    let rkey = RecordKey::from(vec![7u8]);
    let config = GetRecordConfig {
        local_peer_id: net.local, known_records: 0, quorum, replication_factor: replication, parallelism_factor: parallelism,
        query: QueryId(1), target: Key::from_bytes_verif(key_bytes(0), rkey.clone()),
    };
    let mut seeds = VecDeque::new();
    for i in 0..N { if nd.bool("seed") && net.ids[i] != net.local { seeds.push_back(net.peers[i].clone()); } }
    let mut ctx = GetRecordContext::new(config, seeds, local_record);
    let now = Instant::now();

    let mut contacted: Vec<PeerId> = Vec::new();
    let mut answered: Vec<PeerId> = Vec::new();
    let mut records_given = 0usize;      // unexpired records handed over by peers
    let mut records_reported = 0usize;   // partial results emitted
    let mut reported_from: Vec<PeerId> = Vec::new();
    let steps = param("steps", 4);
    for _ in 0..steps {
        if nd.bool("poll") {
            match ctx.next_action() {
                Some(QueryAction::SendMessage { peer, .. }) => {
                    cover("c15r.send");
                    check("c15r.never-contacts-local", peer != net.local);
                    check("c15r.never-contacts-twice", !contacted.contains(&peer));
                    contacted.push(peer);
                    let in_flight = contacted.iter().filter(|p| !answered.contains(p)).count();
                    check("c15r.in-flight-within-parallelism", in_flight <= parallelism);
                    let found = records_given + if local_record { 1 } else { 0 };
                    check("c15r.no-request-after-quorum-met", found < needed);
                }
                Some(QueryAction::GetRecordPartialResult { record, .. }) => {
                    cover("c15r.partial");
                    records_reported += 1;
                    check("c15r.record-reported-at-most-once-per-reply", !reported_from.contains(&record.peer));
                    check("c15r.record-comes-from-a-peer-that-answered", answered.contains(&record.peer));
                    reported_from.push(record.peer);
                }
                Some(QueryAction::QuerySucceeded { .. }) => {
                    cover("c15r.succeeded");
                    check("c15r.every-record-reported-before-success", records_reported == records_given);
                    check("c15r.success-needs-a-record", records_given > 0 || local_record);
                    return;
                }
                Some(QueryAction::QueryFailed { .. }) => {
                    cover("c15r.failed");
                    check("c15r.failure-only-without-records", records_given == 0 && !local_record);
                    return;
                }
                Some(_) => check("c15r.unexpected-action", false),
                None => {
                    cover("c15r.wait");
                    check("c15r.waits-only-on-outstanding-requests", contacted.iter().any(|p| !answered.contains(p)));
                }
            }
        } else {
            let outstanding: Vec<PeerId> = contacted.iter().copied().filter(|p| !answered.contains(p)).collect();
            if outstanding.is_empty() { assume(false); }
            let who = outstanding[nd.choose("who", outstanding.len() as u64) as usize];
            answered.push(who);
            if nd.bool("replies") {
                let record = match nd.choose("record", 3) {
                    0 => None,
                    1 => { let mut r = Record::new(rkey.clone(), vec![1u8]); r.expires = Some(now - Duration::from_secs(10)); Some(r) }
                    _ => { records_given += 1; Some(Record::new(rkey.clone(), vec![2u8])) }
                };
                let mut advertised = Vec::new();
                for i in 0..N { if nd.bool("advertise") { advertised.push(net.peers[i].clone()); } }
                ctx.register_response(who, record, advertised);
                cover("c15r.response");
            } else {
                ctx.register_response_failure(who);
                cover("c15r.peer-failure");
            }
        }
    }
}

/// C15 (provider lookup): GetProvidersContext against a ledger.
pub fn c15_get_providers(nd: &mut Nondet) {
    const N: usize = 3;
    let net = small_network(nd, N);
    let parallelism = nd.usize("parallelism");
    assume(parallelism >= 1 && parallelism <= 2);
    let rkey = RecordKey::from(vec![7u8]);
    let config = GetProvidersConfig {
        local_peer_id: net.local, parallelism_factor: parallelism, query: QueryId(2),
        target: Key::from_bytes_verif(key_bytes(0), rkey.clone()), known_providers: Vec::new(),
    };
    let mut seeds = VecDeque::new();
    for i in 0..N { if nd.bool("seed") && net.ids[i] != net.local { seeds.push_back(net.peers[i].clone()); } }
    let mut ctx = GetProvidersContext::new(config, seeds);
    // providers come from a separate 2-peer universe
    let prov = [nd.peer_id_fixed(201), nd.peer_id_fixed(202)];
    let mut given: Vec<PeerId> = Vec::new();

    let mut contacted: Vec<PeerId> = Vec::new();
    let mut answered: Vec<PeerId> = Vec::new();
    let steps = param("steps", 4);
    for _ in 0..steps {
        if nd.bool("poll") {
            match ctx.next_action() {
                Some(QueryAction::SendMessage { peer, .. }) => {
                    cover("c15p.send");
                    check("c15p.never-contacts-local", peer != net.local);
                    check("c15p.never-contacts-twice", !contacted.contains(&peer));
                    contacted.push(peer);
                    let in_flight = contacted.iter().filter(|p| !answered.contains(p)).count();
                    check("c15p.in-flight-within-parallelism", in_flight <= parallelism);
                }
                Some(QueryAction::QuerySucceeded { .. }) => {
                    cover("c15p.succeeded");
                    check("c15p.success-needs-a-provider", !given.is_empty());
                    check("c15p.terminal-only-when-nothing-outstanding", contacted.iter().all(|p| answered.contains(p)));
                    let result = ctx.found_providers();
                    // each provider exactly once
                    let mut seen: Vec<PeerId> = Vec::new();
                    for p in result.iter() { check("c15p.provider-reported-once", !seen.contains(&p.peer)); seen.push(p.peer); }
                    for g in given.iter() { check("c15p.every-returned-provider-is-reported", seen.contains(g)); }
                    for r in seen.iter() { check("c15p.only-returned-providers-are-reported", given.contains(r)); }
                    return;
                }
                Some(QueryAction::QueryFailed { .. }) => {
                    cover("c15p.failed");
                    check("c15p.failure-only-without-providers", given.is_empty());
                    check("c15p.terminal-only-when-nothing-outstanding", contacted.iter().all(|p| answered.contains(p)));
                    return;
                }
                Some(_) => check("c15p.unexpected-action", false),
                None => {
                    cover("c15p.wait");
                    check("c15p.waits-only-on-outstanding-requests", contacted.iter().any(|p| !answered.contains(p)));
                }
            }
        } else {
            let outstanding: Vec<PeerId> = contacted.iter().copied().filter(|p| !answered.contains(p)).collect();
            if outstanding.is_empty() { assume(false); }
            let who = outstanding[nd.choose("who", outstanding.len() as u64) as usize];
            answered.push(who);
            if nd.bool("replies") {
                let mut providers = Vec::new();
                for k in 0..2 {
                    if nd.bool("provider") {
                        providers.push(KademliaPeer::new_verif(prov[k], key_bytes(100 + k as u8), ConnectionType::NotConnected));
                        if !given.contains(&prov[k]) { given.push(prov[k]); }
                    }
                }
                let mut advertised = Vec::new();
                for i in 0..N { if nd.bool("advertise") { advertised.push(net.peers[i].clone()); } }
                ctx.register_response(who, providers, advertised);
                cover("c15p.response");
            } else {
                ctx.register_response_failure(who);
                cover("c15p.peer-failure");
            }
        }
    }
}

// ------------------------------------------------------------------------------------------ C10 address book
use litep2p::transport::manager::address::{scores, AddressRecord, AddressStore};

/// address universe of the store harnesses: index -> (multiaddr, is it a public address?)
fn store_address(k: usize, peer: PeerId) -> (Multiaddr, bool) {
    let (ip, public) = match k {
        0 => (Ipv4Addr::new(10, 0, 0, 1), false),
        1 => (Ipv4Addr::new(10, 0, 0, 2), false),
        2 => (Ipv4Addr::new(8, 8, 8, 1), true),
        3 => (Ipv4Addr::new(8, 8, 8, 2), true),
        _ => (Ipv4Addr::new(10, 0, 0, 5), false),
    };
    (Multiaddr::empty().with(Protocol::Ip4(ip)).with(Protocol::Tcp(30333)).with(Protocol::P2p(peer.into())), public)
}

fn any_score(nd: &mut Nondet, name: &'static str) -> i32 {
    // the scores the library itself assigns, plus neighbours and the extremes
    match nd.choose(name, 8) {
        0 => 0, 1 => scores::CONNECTION_ESTABLISHED, 2 => scores::CONNECTION_FAILURE, 3 => scores::ADDRESS_FAILURE,
        4 => 1, 5 => -1, 6 => i32::MAX, _ => 99,
    }
}

/// C10: one `AddressStore::insert` from an arbitrary store at any capacity, against a reference model.
pub fn c10_store_insert(nd: &mut Nondet) {
    const U: usize = 5;
    let peer = nd.peer_id_fixed(1);
    let capacity = 1 + nd.choose("capacity", 3) as usize;
    let mut store = AddressStore::with_capacity_verif(capacity);
    // arbitrary pre-state: any subset of the universe within capacity, any stored scores
    let mut model: Vec<(usize, i32)> = Vec::new();
    for k in 0..U {
        if model.len() < capacity && nd.bool("present") {
            let score = nd.i32("stored_score");
            let (address, _) = store_address(k, peer);
            store.addresses.insert(address.clone(), AddressRecord::from_raw_multiaddr_with_score(address, score));
            model.push((k, score));
        }
    }
    let k = nd.choose("insert_addr", U as u64) as usize;
    let score = any_score(nd, "insert_score");
    let (address, public) = store_address(k, peer);
    store.insert(AddressRecord::new(&peer, address.clone(), score));

    let now: Vec<(usize, i32)> = (0..U).filter_map(|j| store.addresses.get(&store_address(j, peer).0).map(|r| (j, r.score_verif()))).collect();
    check("c10.store-holds-only-universe-addresses", store.addresses.len() == now.len());
    check("c10.capacity-never-exceeded", now.len() <= capacity);
    check("c10.capacity-unchanged", store.max_capacity_verif() == capacity);
    if let Some(pos) = model.iter().position(|(j, _)| *j == k) {
        cover("c10.insert.existing");
        // rediscovery (score 0) never erases the history; a real score replaces it
        let expect = if score != 0 { score } else { model[pos].1 };
        for (j, s) in model.iter() {
            let kept = now.iter().find(|(i, _)| i == j).map(|(_, v)| *v);
            check("c10.update-touches-exactly-the-address-used", kept == Some(if *j == k { expect } else { *s }));
        }
        check("c10.update-keeps-size", now.len() == model.len());
    } else {
        let effective = if public { score.saturating_add(scores::PUBLIC_ADDRESS_BONUS) } else { score };
        if model.len() < capacity {
            cover("c10.insert.room");
            check("c10.new-address-stored-with-its-score", now.iter().any(|(j, s)| *j == k && *s == effective));
            for (j, s) in model.iter() { check("c10.insert-keeps-the-others", now.iter().any(|(i, v)| i == j && v == s)); }
            check("c10.insert-grows-by-one", now.len() == model.len() + 1);
        } else {
            let min = model.iter().map(|(_, s)| *s).min().expect("capacity >= 1");
            if effective < min {
                cover("c10.insert.full.dropped");
                check("c10.lower-scored-newcomer-is-dropped", now == model);
            } else {
                cover("c10.insert.full.displaced");
                check("c10.newcomer-kept", now.iter().any(|(j, s)| *j == k && *s == effective));
                let removed: Vec<(usize, i32)> = model.iter().copied().filter(|(j, _)| !now.iter().any(|(i, _)| i == j)).collect();
                check("c10.exactly-one-displaced", removed.len() == 1 && now.len() == capacity);
                check("c10.displaced-is-lowest-scored", removed.len() == 1 && removed[0].1 == min);
                for (j, s) in model.iter() {
                    if let Some((_, v)) = now.iter().find(|(i, _)| i == j) { check("c10.survivors-keep-their-score", v == s); }
                }
            }
        }
    }
}

/// C10: `addresses(limit)` returns the `limit` best addresses in non-increasing score order.
pub fn c10_store_addresses(nd: &mut Nondet) {
    const U: usize = 4;
    let peer = nd.peer_id_fixed(1);
    let mut store = AddressStore::with_capacity_verif(U);
    let mut model: Vec<(usize, i32)> = Vec::new();
    for k in 0..U {
        if nd.bool("present") {
            let score = nd.i32("stored_score");
            let (address, _) = store_address(k, peer);
            store.addresses.insert(address.clone(), AddressRecord::from_raw_multiaddr_with_score(address, score));
            model.push((k, score));
        }
    }
    let limit = nd.choose("limit", U as u64 + 2) as usize;
    let out = store.addresses(limit);
    cover("c10.addresses");
    check("c10.addresses-length", out.len() == std::cmp::min(limit, model.len()));
    let mut picked: Vec<(usize, i32)> = Vec::new();
    for a in out.iter() {
        let j = (0..U).find(|j| store_address(*j, peer).0 == *a);
        check("c10.addresses-come-from-the-store", j.is_some() && model.iter().any(|(i, _)| Some(*i) == j));
        if let Some(j) = j {
            check("c10.addresses-no-duplicates", !picked.iter().any(|(i, _)| *i == j));
            let s = model.iter().find(|(i, _)| *i == j).map(|(_, s)| *s).unwrap_or(0);
            if let Some((_, prev)) = picked.last() { check("c10.addresses-non-increasing-score", *prev >= s); }
            picked.push((j, s));
        }
    }
    // top-k: nothing left out scores higher than something returned
    for (j, s) in model.iter() {
        if !picked.iter().any(|(i, _)| i == j) {
            for (_, ps) in picked.iter() { check("c10.addresses-are-the-best-ones", ps >= s); }
        }
    }
}

// ------------------------------------------------------------------------------------------ C05-H3 / C10-H3 address shapes
use std::net::Ipv6Addr;
use std::borrow::Cow;

/// A structured multiaddress of up to 5 components from an alphabet of well-formed and adversarial components.
fn any_shape(nd: &mut Nondet, this: PeerId, other: PeerId, local: PeerId) -> Multiaddr {
    let mut a = Multiaddr::empty();
    a = match nd.choose("c0", 11) {
        0 => a.with(Protocol::Ip4(Ipv4Addr::new(10, 0, 0, 9))),
        1 => a.with(Protocol::Ip4(Ipv4Addr::new(0, 0, 0, 0))),
        2 => a.with(Protocol::Ip4(Ipv4Addr::new(127, 0, 0, 1))),
        3 => a.with(Protocol::Ip4(Ipv4Addr::new(10, 0, 0, 77))),         // the node's own listen ip
        4 => a.with(Protocol::Ip6(Ipv6Addr::new(0x2001, 0xdb8, 0, 0, 0, 0, 0, 1))),
        5 => a.with(Protocol::Ip6(Ipv6Addr::new(0, 0, 0, 0, 0, 0, 0, 0))),
        6 => a.with(Protocol::Ip6(Ipv6Addr::new(0, 0, 0, 0, 0, 0, 0, 1))),
        7 => a.with(Protocol::Dns(Cow::Borrowed("example.com"))),
        8 => a.with(Protocol::Dns4(Cow::Borrowed("example.com"))),
        9 => a.with(Protocol::Dnsaddr(Cow::Borrowed("example.com"))),
        _ => a.with(Protocol::Tcp(30333)),
    };
    let tail = |nd: &mut Nondet, a: Multiaddr, name: &'static str| -> (Multiaddr, bool) {
        match nd.choose(name, 9) {
            0 => (a, true),
            1 => (a.with(Protocol::Tcp(30333)), false),
            2 => (a.with(Protocol::Tcp(4444)), false),                         // the node's own listen port
            3 => (a.with(Protocol::Udp(30333)), false),
            4 => (a.with(Protocol::Ws(Cow::Borrowed("/"))), false),
            5 => (a.with(Protocol::QuicV1), false),
            6 => (a.with(Protocol::P2p(this.into())), false),
            7 => (a.with(Protocol::P2p(other.into())), false),
            _ => (a.with(Protocol::P2p(local.into())), false),
        }
    };
    let (a, end) = tail(nd, a, "c1"); if end { return a; }
    let (a, end) = tail(nd, a, "c2"); if end { return a; }
    let (a, end) = tail(nd, a, "c3"); if end { return a; }
    let (a, _) = tail(nd, a, "c4");
    a
}

/// C05-H3 + C10-H3: every address shape through `dial_address` and `add_known_address` + `dial`.
pub fn c05_address_shapes(nd: &mut Nondet) {
    let mut manager = TransportManagerBuilder::new().build();
    let mut calls: Vec<TransportCall> = Vec::new();
    let cp = &mut calls as *mut Vec<TransportCall> as usize;
    hooks::register_scripted_tcp(&mut manager, Box::new(move |call: TransportCall| {
        unsafe { (&mut *(cp as *mut Vec<TransportCall>)).push(call); }
        true
    }));
    manager.register_listen_address(Multiaddr::empty().with(Protocol::Ip4(Ipv4Addr::new(10, 0, 0, 77))).with(Protocol::Tcp(4444)));
    // a wildcard listener on another port: loopback addresses with that port are the node itself
    manager.register_listen_address(Multiaddr::empty().with(Protocol::Ip4(Ipv4Addr::new(0, 0, 0, 0))).with(Protocol::Tcp(30333)));
    let local = hooks::local_peer_id(&manager);
    let this = nd.peer_id_fixed(1);
    let other = nd.peer_id_fixed(2);
    assume(local != this && local != other);
    let address = any_shape(nd, this, other, local);

    if nd.bool("via_dial_address") {
        match hooks::dial_address_now(&mut manager, address.clone()) {
            None => check("c05.dial_address-never-suspends", false),
            Some(true) => {
                cover("shape.dial_address.accepted");
                let dials: Vec<ConnectionId> = calls.iter().filter_map(|c| if let TransportCall::Dial(id) = c { Some(*id) } else { None }).collect();
                check("c05.accepted-address-is-dialed-once", dials.len() == 1);
                if dials.len() == 1 {
                    let tracked = hooks::pending_peer(&manager, &dials[0]);
                    check("c05.attempt-is-routable", tracked.is_some());
                    let target = calls.iter().find_map(|c| if let TransportCall::DialTarget(_, p) = c { Some(*p) } else { None }).expect("dial target reported");
                    // the transport authenticates the remote against `target`; the manager waits for `tracked`
                    check("c05.transport-dials-the-peer-the-manager-tracks", target.is_none() || target == tracked);
                    if let Some(p) = tracked { check("c05.peer-is-dialing", !hooks::can_dial_now(&manager, &p)); }
                }
            }
            Some(false) => {
                cover("shape.dial_address.refused");
                check("c05.refused-address-makes-no-attempt", !calls.iter().any(|c| matches!(c, TransportCall::Dial(_))));
                check("c05.refused-address-leaves-peers-dialable", hooks::can_dial_now(&manager, &this) && hooks::can_dial_now(&manager, &other));
                check("c05.refused-address-tracks-nothing", hooks::pending_len(&manager) == 0);
            }
        }
        // whatever dial_address remembered for later dials must be dialable by the installed transport and name its peer
        for p in [this, other, local].iter() {
            for a in hooks::peer_addresses(&manager, p, 64).iter() {
                check("c10.address-remembered-by-dial_address-is-dialable-and-attributed", hooks::tcp_can_dial(a) == Some(Some(*p)));
            }
        }
    } else {
        let added = manager.add_known_address(this, vec![address.clone()].into_iter());
        let stored = hooks::peer_addresses(&manager, &this, 64);
        check("c10.reported-count-is-stored-count", added == stored.len() && stored.len() <= 1);
        check("c10.nothing-stored-for-other-peers", hooks::address_count(&manager, &other) == 0 && hooks::address_count(&manager, &local) == 0);
        if stored.len() == 1 {
            cover("shape.known.stored");
            let s = &stored[0];
            check("c10.stored-address-names-this-peer", matches!(s.iter().last(), Some(Protocol::P2p(p)) if PeerId::from_multihash(p).ok() == Some(this)));
            check("c10.stored-address-is-the-offered-one", *s == address || *s == address.clone().with(Protocol::P2p(this.into())));
            // own addresses: 10.0.0.77:4444 exactly, and (wildcard listener on 30333) any loopback address with port 30333
            let first = s.iter().next();
            let second = s.iter().nth(1);
            let exact = matches!(first, Some(Protocol::Ip4(ip)) if ip == Ipv4Addr::new(10, 0, 0, 77)) && matches!(second, Some(Protocol::Tcp(4444)));
            let loopback = match first { Some(Protocol::Ip4(ip)) => ip.is_loopback(), Some(Protocol::Ip6(ip)) => ip.is_loopback(), _ => false };
            check("c10.stored-address-is-not-a-listen-address", !exact && !(loopback && matches!(second, Some(Protocol::Tcp(30333)))));
            check("c10.stored-address-is-not-unspecified", !matches!(s.iter().next(), Some(Protocol::Ip4(ip)) if ip.is_unspecified())
                  && !matches!(s.iter().next(), Some(Protocol::Ip6(ip)) if ip.is_unspecified()));
            // dialable by the enabled transport: dialing the peer by id hands exactly this address to the transport
            match hooks::dial_now(&mut manager, this) {
                Some(true) => {
                    check("c10.stored-address-is-dialed", calls.iter().any(|c| matches!(c, TransportCall::Open(_))));
                    check("c10.stored-address-parses-for-the-transport", hooks::tcp_can_dial(s) == Some(Some(this)));
                }
                _ => check("c10.peer-with-stored-address-is-dialable", false),
            }
        } else {
            cover("shape.known.refused");
            check("c10.refused-address-leaves-peer-without-addresses", hooks::dial_now(&mut manager, this) == Some(false));
        }
    }
}

// ------------------------------------------------------------------------------------------ C20 receive side
use litep2p::protocol::libp2p::bitswap::verif_hooks_receive as bitswap_rx;
use multihash_codetable::{Code, MultihashDigest};

fn push_varint(out: &mut Vec<u8>, v: u64) {
    let mut buf = unsigned_varint::encode::u64_buffer();
    out.extend_from_slice(unsigned_varint::encode::u64(v, &mut buf));
}

/// C20: a delivered block is paired with the CID recomputed from the received bytes and the prefix' parameters.
pub fn c20_block_cid(nd: &mut Nondet) {
    let peer = nd.peer_id_fixed(1);
    // the prefix a remote may send: four varints (version, codec, hash type, advertised digest length) + optional junk
    let version = nd.choose("version", 3);                       // 0, 1, 2 (unknown)
    let codec = match nd.choose("codec", 3) { 0 => 0x70u64, 1 => 0x55u64, _ => nd.u64("codec_raw") };
    let mh_type = match nd.choose("mh_type", 6) { 0 => 0x12u64, 1 => 0x13, 2 => 0xb220, 3 => 0x16, 4 => 0x11 /* sha1: not compiled in */, _ => nd.u64("mh_type_raw") };
    let mh_len = match nd.choose("mh_len", 5) { 0 => 32u64, 1 => 0, 2 => 16, 3 => 255, _ => 256 };
    let mut prefix = Vec::new();
    push_varint(&mut prefix, version);
    push_varint(&mut prefix, codec);
    push_varint(&mut prefix, mh_type);
    push_varint(&mut prefix, mh_len);
    let damage = nd.choose("damage", 3);
    let junk = damage == 1;
    if junk { prefix.push(1); }
    let truncated = damage == 2;
    if truncated { prefix.pop(); }
    let data = vec![1u8, 2, 3];

    let got = bitswap_rx::block_to_cid(&peer, prefix, data.clone());
    // reference: recompute from the received data with the hash function the prefix names
    let well_formed = !junk && !truncated && version <= 1 && mh_len <= 255;
    let expected = if !well_formed { None } else {
        match Code::try_from(mh_type) {
            Err(_) => None,
            Ok(code) => {
                let mh = code.digest(&data);
                match cid::multihash::Multihash::<64>::wrap(mh.code(), mh.digest()) {
                    Err(_) => None,
                    Ok(mh) => cid::Cid::new(if version == 0 { cid::Version::V0 } else { cid::Version::V1 }, codec, mh).ok(),
                }
            }
        }
    };
    match (&got, &expected) {
        (Some((c, block)), Some(e)) => {
            cover("c20.delivered");
            check("c20.block-is-the-received-data", *block == data);
            check("c20.cid-is-recomputed-from-the-received-data", c == e);
        }
        (None, None) => cover("c20.dropped"),
        (Some(_), None) => check("c20.malformed-or-uncomputable-prefix-is-dropped", false),
        (None, Some(_)) => check("c20.valid-block-is-delivered", false),
    }
}

// ------------------------------------------------------------------------------------------ C14 routing table
use litep2p::protocol::libp2p::kademlia::bucket::KBucketEntry;
use litep2p::protocol::libp2p::kademlia::routing_table::RoutingTable;

fn kad_address(v: u8, peer: PeerId) -> Multiaddr {
    Multiaddr::empty().with(Protocol::Ip4(Ipv4Addr::new(10, 1, 0, v))).with(Protocol::Tcp(30333)).with(Protocol::P2p(peer.into()))
}

#[derive(Clone)]
struct RefPeer { v: u8, has_addr: bool, connected: bool }

/// brute-force reference of `closest`: stored peers with addresses, by increasing distance to the target
fn reference_closest(model: &Vec<RefPeer>, nd: &mut Nondet, target: &Key<PeerId>, limit: usize) -> Vec<PeerId> {
    let mut with_addr: Vec<PeerId> = model.iter().filter(|p| p.has_addr).map(|p| nd.peer_id_fixed(p.v)).collect();
    with_addr.sort_by_key(|p| target.distance(&Key::from(*p)));
    with_addr.truncate(limit);
    with_addr
}

/// C14: histories of routing-table updates over peers in several buckets (keys are the real SHA-256 of the ids),
/// then `closest` against a brute-force reference.
pub fn c14_table_ops(nd: &mut Nondet) {
    // relative to local id 0: ids 1, 2 -> bucket 255; 3 -> bucket 254; 9 -> bucket 250
    const POOL: [u8; 4] = [1, 2, 3, 9];
    let local = nd.peer_id_fixed(0);
    let mut table = RoutingTable::new(Key::from(local));
    let mut model: Vec<RefPeer> = Vec::new();
    let steps = param("steps", 2);
    for _ in 0..steps {
        let v = POOL[nd.choose("peer", POOL.len() as u64) as usize];
        let peer = nd.peer_id_fixed(v);
        let pos = model.iter().position(|p| p.v == v);
        match nd.choose("op", 4) {
            0 => {
                let with_addr = nd.bool("with_address");
                let connected = nd.bool("connected");
                let addresses = if with_addr { vec![kad_address(v, peer)] } else { vec![] };
                table.add_known_peer(peer, addresses, if connected { ConnectionType::Connected } else { ConnectionType::NotConnected });
                if with_addr {
                    match pos { Some(i) => { model[i].has_addr = true; model[i].connected = connected; } None => model.push(RefPeer { v, has_addr: true, connected }) }
                }
                cover("c14.add");
            }
            1 => {
                let dialer = nd.bool("dialer");
                let endpoint = if dialer { Endpoint::Dialer { address: kad_address(v, peer), connection_id: ConnectionId::from(1usize) } }
                               else { Endpoint::Listener { address: kad_address(v, peer), connection_id: ConnectionId::from(1usize) } };
                table.on_connection_established(Key::from(peer), endpoint);
                if let Some(i) = pos { model[i].connected = true; if dialer { model[i].has_addr = true; } }
                cover("c14.established");
            }
            2 => {
                table.on_dial_failure(Key::from(peer), &[kad_address(v, peer)]);
                if let Some(i) = pos { model[i].has_addr = true; }
                cover("c14.dial-failure");
            }
            _ => {
                // the local node is never stored
                table.add_known_peer(local, vec![kad_address(0, local)], ConnectionType::Connected);
                check("c14.local-node-is-never-stored", matches!(table.entry(Key::from(local)), KBucketEntry::LocalNode));
                cover("c14.add-local");
            }
        }
        // entry view agrees with the reference
        for q in POOL.iter() {
            let known = model.iter().find(|p| p.v == *q);
            match table.entry(Key::from(nd.peer_id_fixed(*q))) {
                KBucketEntry::Occupied(e) => {
                    match known {
                        Some(m) => check("c14.entry-connection-state", e.is_connected_verif() == m.connected),
                        None => check("c14.unknown-peer-is-not-occupied", false),
                    }
                }
                _ => check("c14.known-peer-is-occupied", known.is_none()),
            }
        }
    }
    // closest lookups: target = a stored peer's key, a foreign key, or the local key
    let target_v = match nd.choose("target", 4) { 0 => 1u8, 1 => 9, 2 => 100, _ => 0 };
    let target = Key::from(nd.peer_id_fixed(target_v));
    let all = table.closest(&target, 8);
    let expect = reference_closest(&model, nd, &target, 8);
    let got: Vec<PeerId> = all.iter().map(|p| p.peer_id_verif()).collect();
    check("c14.closest-returns-exactly-the-stored-peers-with-addresses-by-distance", got == expect);
    let limit = 1 + nd.choose("limit", 2) as usize;
    let some: Vec<PeerId> = table.closest(&target, limit).iter().map(|p| p.peer_id_verif()).collect();
    let expect_some = reference_closest(&model, nd, &target, limit);
    check("c14.closest-k-is-the-k-closest", some == expect_some);
    cover("c14.closest");
}

/// C14: a full bucket (20 peers whose real keys share bucket 255): re-adding, connecting and overflowing.
pub fn c14_bucket_full(nd: &mut Nondet) {
    // ids whose SHA-256 key lies in bucket 255 relative to local id 0
    const B255: [u8; 22] = [1, 2, 4, 5, 6, 10, 14, 15, 16, 18, 21, 22, 25, 26, 28, 29, 30, 31, 32, 34, 36, 38];
    let local = nd.peer_id_fixed(0);
    let mut table = RoutingTable::new(Key::from(local));
    let mut model: Vec<RefPeer> = Vec::new();
    // which of the 20 entries are not connected (and therefore replaceable): up to two of them, anywhere
    let loose_a = match nd.choose("loose_a", 4) { 0 => None, 1 => Some(0usize), 2 => Some(7), _ => Some(19) };
    let loose_b = match nd.choose("loose_b", 2) { 0 => None, _ => Some(12usize) };
    for i in 0..20 {
        let v = B255[i];
        let p = nd.peer_id_fixed(v);
        let connected = Some(i) != loose_a && Some(i) != loose_b;
        table.add_known_peer(p, vec![kad_address(v, p)], if connected { ConnectionType::Connected } else { ConnectionType::NotConnected });
        model.push(RefPeer { v, has_addr: true, connected });
    }
    let steps = param("steps", 2);
    for _ in 0..steps {
        match nd.choose("op", 4) {
            0 => {
                // a peer that is already stored is offered again (e.g. learned from a FIND_NODE reply)
                let i = match nd.choose("existing", 3) { 0 => 3usize, 1 => 12, _ => 15 };
                let connected = nd.bool("connected");
                let v = model[i].v;
                if model.iter().any(|p| p.v == B255[i]) {
                    let j = model.iter().position(|p| p.v == B255[i]).unwrap();
                    let p = nd.peer_id_fixed(B255[i]);
                    table.add_known_peer(p, vec![kad_address(B255[i], p)], if connected { ConnectionType::Connected } else { ConnectionType::NotConnected });
                    model[j].connected = connected;
                    cover("c14.full.readd");
                }
                let _ = v;
            }
            1 => {
                // an inbound or outbound connection with a stored peer
                let i = match nd.choose("who", 3) { 0 => 0usize, 1 => 7, _ => 12 };
                if let Some(j) = model.iter().position(|p| p.v == B255[i]) {
                    let p = nd.peer_id_fixed(B255[i]);
                    let endpoint = if nd.bool("dialer") { Endpoint::Dialer { address: kad_address(B255[i], p), connection_id: ConnectionId::from(1usize) } }
                                   else { Endpoint::Listener { address: kad_address(B255[i], p), connection_id: ConnectionId::from(1usize) } };
                    table.on_connection_established(Key::from(p), endpoint);
                    model[j].connected = true;
                    cover("c14.full.connect");
                }
            }
            _ => {
                // a new peer for the full bucket: takes the place of the first non-connected entry, if any
                let v = if model.iter().any(|p| p.v == 36) { 38u8 } else { 36u8 };
                if !model.iter().any(|p| p.v == v) {
                    let p = nd.peer_id_fixed(v);
                    table.add_known_peer(p, vec![kad_address(v, p)], ConnectionType::NotConnected);
                    match model.iter().position(|p| !p.connected) {
                        Some(j) => { model[j] = RefPeer { v, has_addr: true, connected: false }; cover("c14.full.displace"); }
                        None => cover("c14.full.noslot"),
                    }
                }
            }
        }
        check("c14.bucket-never-exceeds-twenty", model.len() <= 20);
    }
    let target = Key::from(nd.peer_id_fixed(36));
    let got: Vec<PeerId> = table.closest(&target, 30).iter().map(|p| p.peer_id_verif()).collect();
    let expect = reference_closest(&model, nd, &target, 30);
    check("c14.full-bucket-holds-exactly-the-reference-peers", got == expect);
    check("c14.at-most-twenty-returned", got.len() <= 20);
    for m in model.iter() {
        if m.connected {
            check("c14.connected-peer-is-never-displaced", matches!(table.entry(Key::from(nd.peer_id_fixed(m.v))), KBucketEntry::Occupied(e) if e.is_connected_verif()));
        }
    }
}

// ------------------------------------------------------------------------------------------ C17 providers
use litep2p::protocol::libp2p::kademlia::ContentProvider;

/// C17 (providers half): bounds on keys / providers per key / addresses per provider, freshness, distance order,
/// closest-retained and update-in-place, against a reference model.
pub fn c17_store_providers(nd: &mut Nondet) {
    let inductive = param("arbitrary_start", 0) == 1;
    let max_keys = if inductive { 1 + nd.choose("max_provider_keys", 2) as usize } else { nd.choose("max_provider_keys", 3) as usize };
    let max_per_key = if inductive { 1 + 2 * nd.choose("max_providers_per_key", 2) as usize } else { 1 + nd.choose("max_providers_per_key", 2) as usize };
    let max_addrs = if inductive { 2 * nd.choose("max_provider_addresses", 2) as usize } else { nd.choose("max_provider_addresses", 3) as usize };
    let ttl = Duration::from_secs(1000);
    let config = MemoryStoreConfig {
        max_records: 1, max_record_size_bytes: 8, max_provider_keys: max_keys, max_provider_addresses: max_addrs,
        max_providers_per_key: max_per_key, provider_refresh_interval: Duration::from_secs(3600), provider_ttl: ttl,
    };
    let local = nd.peer_id_fixed(0);
    let mut store = MemoryStore::with_config(local, config);
    let provider_ids: [u8; 4] = [1, 2, 3, 0];       // index 3 is the local node (announced through put_local_provider)
    let mut local_keys: Vec<usize> = Vec::new();
    // relative to key [2] the local node (id 0) is the closest of the four providers, relative to key [1] the third closest
    let keys = [RecordKey::from(vec![2u8]), RecordKey::from(vec![1u8])];
    // reference: per key the providers sorted by distance to the key: (peer index, addresses, expired)
    let mut model: Vec<(usize, Vec<(usize, usize, bool)>)> = Vec::new();
    let closer = |k: usize, a: usize, b: usize, nd: &mut Nondet| -> bool {
        let key = Key::new(keys[k].clone());
        Key::from(nd.peer_id_fixed(provider_ids[a])).distance(&key) < Key::from(nd.peer_id_fixed(provider_ids[b])).distance(&key)
    };
    if param("arbitrary_start", 0) == 1 {
        // inductive form: any store that satisfies the representation invariant (bounds hold, every list sorted by
        // distance without duplicates, a key the local node provides is registered as such)
        for k in 0..1 {
            if model.len() >= max_keys || !nd.bool("key_present") { continue; }
            // per list: one address count and one freshness for all members (keeps the pre-state space small)
            let list_naddr = std::cmp::min(2 * nd.choose("stored_addresses", 2) as usize, max_addrs);
            let list_expired = nd.bool("expired");
            let only_first = k == 1;          // the second key holds at most its closest provider
            // members in distance order: sort the universe by distance to this key, then pick a subset
            let mut order: Vec<usize> = vec![0, 1, 2, 3];
            let mut i = 1;
            while i < 4 { let mut j = i; while j > 0 && closer(k, order[j], order[j - 1], nd) { order.swap(j, j - 1); j -= 1; } i += 1; }
            let mut list: Vec<(usize, usize, bool)> = Vec::new();
            for who in order.iter() {
                if list.len() < max_per_key && !(only_first && !list.is_empty()) && nd.bool("member") {
                    let naddr = if *who == 3 { 0 } else { list_naddr };
                    let expired = list_expired;
                    let peer = nd.peer_id_fixed(provider_ids[*who]);
                    let mut addresses = Vec::new();
                    for j in 0..naddr { addresses.push(kad_address(j as u8 + 1, peer)); }
                    store.push_provider_verif(keys[k].clone(), peer, addresses, expired, *who == 3);
                    if *who == 3 { local_keys.push(k); }
                    list.push((*who, naddr, expired));
                }
            }
            if !list.is_empty() { model.push((k, list)); }
        }
        cover("c17p.arbitrary-start");
    }
    let steps = param("steps", 3);
    for _ in 0..steps {
        let k = nd.choose("key", 2) as usize;
        let op = nd.choose("op", 5);
        match op {
            4 => {
                // the local node stops providing: only while its record is still stored (otherwise the library
                // logs an error and hits a debug assertion)
                let stored = model.iter().any(|(kk, list)| *kk == k && list.iter().any(|(w, _, _)| *w == 3));
                if !local_keys.contains(&k) || !stored { assume(false); }
                store.remove_local_provider(keys[k].clone());
                local_keys.retain(|x| *x != k);
                let pos = model.iter().position(|(kk, _)| *kk == k).expect("stored");
                model[pos].1.retain(|(w, _, _)| *w != 3);
                if model[pos].1.is_empty() { model.remove(pos); }
                cover("c17p.remove-local");
            }
            0 | 3 => {
                let local = op == 3;
                let who = if local { 3 } else { nd.choose("provider", 3) as usize };
                let peer = nd.peer_id_fixed(provider_ids[who]);
                // quick tier: none or more than any bound; thorough tier: 0..=3
                let n = if local { 0 } else if param("all_address_counts", 0) == 1 { nd.choose("n_addresses", 4) as usize } else { 3 * nd.choose("n_addresses", 2) as usize };
                let mut addresses = Vec::new();
                for j in 0..n { addresses.push(kad_address(j as u8 + 1, peer)); }
                let accepted = if local { store.put_local_provider(keys[k].clone(), Quorum::One) } else { store.put_provider(keys[k].clone(), ContentProvider { peer, addresses }) };
                let stored_addrs = std::cmp::min(n, max_addrs);
                // reference semantics
                let expect = match model.iter().position(|(kk, _)| *kk == k) {
                    None => if model.len() < max_keys { model.push((k, vec![(who, stored_addrs, false)])); true } else { false },
                    Some(pos) => {
                        let list = &mut model[pos].1;
                        if let Some(i) = list.iter().position(|(w, _, _)| *w == who) {
                            list[i] = (who, stored_addrs, false);      // re-announcement updates in place
                            true
                        } else {
                            let mut i = 0;
                            while i < list.len() && closer(k, list[i].0, who, nd) { i += 1; }
                            if i == max_per_key { false } else {
                                if list.len() == max_per_key { list.pop(); }   // only the closest are retained
                                list.insert(i, (who, stored_addrs, false));
                                true
                            }
                        }
                    }
                };
                check("c17p.put-accepted-as-the-reference-says", accepted == expect);
                if local { if accepted && !local_keys.contains(&k) { local_keys.push(k); } cover("c17p.put-local"); } else { cover("c17p.put"); }
            }
            1 => {
                let got: Vec<(PeerId, usize)> = store.get_providers(&keys[k]).into_iter().map(|p| (p.peer, p.addresses.len())).collect();
                let expect: Vec<(PeerId, usize)> = match model.iter().position(|(kk, _)| *kk == k) {
                    None => Vec::new(),
                    Some(pos) => {
                        model[pos].1.retain(|(_, _, expired)| !*expired);
                        let out = model[pos].1.iter().map(|(w, a, _)| (nd.peer_id_fixed(provider_ids[*w]), *a)).collect();
                        if model[pos].1.is_empty() { model.remove(pos); }
                        out
                    }
                };
                check("c17p.get-returns-fresh-providers-closest-first", got == expect);
                for (_, a) in got.iter() { check("c17p.addresses-per-provider-bounded", *a <= max_addrs); }
                check("c17p.providers-per-key-bounded", got.len() <= max_per_key);
                cover("c17p.get");
            }
            _ => {
                // time passes beyond the provider TTL for everything stored so far
                store.age_verif(ttl + Duration::from_secs(1));
                for (_, list) in model.iter_mut() { for p in list.iter_mut() { p.2 = true; } }
                cover("c17p.expire");
            }
        }
        // bounds on the stored state itself (not only on what `get` returns)
        check("c17p.provider-keys-bounded", store.provider_keys_len_verif() <= max_keys);
        check("c17p.provider-keys-match-reference", store.provider_keys_len_verif() == model.len());
        for kk in 0..2 {
            let stored = store.providers_of_verif(&keys[kk]);
            check("c17p.stored-providers-per-key-bounded", stored.len() <= max_per_key);
            for (_, a) in stored.iter() { check("c17p.stored-addresses-per-provider-bounded", *a <= max_addrs); }
            let expect: Vec<(PeerId, usize)> = match model.iter().find(|(x, _)| *x == kk) {
                None => Vec::new(),
                Some((_, list)) => list.iter().map(|(w, a, _)| (nd.peer_id_fixed(provider_ids[*w]), *a)).collect(),
            };
            check("c17p.stored-providers-sorted-by-distance-as-reference", stored == expect);
        }
    }
}

// ------------------------------------------------------------------------------------------ C18 peer ids
/// digest lengths around every boundary the peer-id rules mention
const MH_LENGTHS: [usize; 9] = [0, 1, 31, 32, 41, 42, 43, 63, 64];

/// C18: litep2p's and the reference's verdict on a multihash agree, and every accepted id round-trips through
/// bytes and a multiaddress component.
pub fn c18_multihash(nd: &mut Nondet) {
    let code = match nd.choose("code", 4) { 0 => 0x00u64, 1 => 0x12, 2 => 0x13, _ => nd.u64("code_raw") };
    let n = MH_LENGTHS[nd.choose("digest_len", MH_LENGTHS.len() as u64) as usize];
    let mut digest = vec![0u8; n];
    if n > 0 { digest[0] = nd.u8("digest_first"); digest[n - 1] = nd.u8("digest_last"); }
    let mh = multihash::Multihash::<64>::wrap(code, &digest).expect("fits 64 bytes");
    let ours = PeerId::from_multihash(mh);
    let reference = multiaddr::PeerId::try_from(mh);
    check("c18.accepts-exactly-what-the-reference-accepts", ours.is_ok() == reference.is_ok());
    // the rule itself: sha2-256 of any length, or identity of at most 42 bytes
    check("c18.acceptance-rule", ours.is_ok() == (code == 0x12 || (code == 0x00 && n <= 42)));
    if let Ok(p) = ours {
        cover("c18.accepted");
        check("c18.multihash-round-trip", multihash::Multihash::<64>::from(p) == mh);
        // multiaddress component (the conversion must not panic) and back
        let address = Multiaddr::empty().with(Protocol::Ip4(Ipv4Addr::new(10, 0, 0, 1))).with(Protocol::Tcp(1)).with(Protocol::P2p(p.into()));
        check("c18.multiaddr-round-trip", PeerId::try_from_multiaddr(&address) == Some(p));
        check("c18.to-multiaddr-peer-id", p.to_multiaddr_peer_id().is_ok());
        if code < 0x80 {
            // bytes: [code, len, digest...]
            let bytes = p.to_bytes();
            check("c18.bytes-layout", bytes.len() == n + 2 && bytes[0] == code as u8 && bytes[1] == n as u8);
            check("c18.bytes-round-trip", PeerId::from_bytes(&bytes).ok() == Some(p));
            check("c18.vec-round-trip", PeerId::try_from(bytes.clone()).ok() == Some(p));
            check("c18.reference-parses-our-bytes", multiaddr::PeerId::from_bytes(&bytes).is_ok());
        }
    } else {
        cover("c18.rejected");
    }
}

/// C18: the peer id of a protobuf-encoded key: identity multihash up to 42 bytes, SHA-256 beyond.
pub fn c18_key_blob(nd: &mut Nondet) {
    const LENGTHS: [usize; 8] = [0, 1, 36, 41, 42, 43, 44, 100];
    let n = LENGTHS[nd.choose("blob_len", LENGTHS.len() as u64) as usize];
    let mut blob = vec![0u8; n];
    if n > 0 { blob[0] = 8; blob[n - 1] = 7; }
    let p = PeerId::from_public_key_protobuf(&blob);
    let mh = multihash::Multihash::<64>::from(p);
    if n <= 42 {
        cover("c18.inline");
        check("c18.short-key-is-inlined", mh.code() == 0x00 && mh.digest() == &blob[..]);
    } else {
        cover("c18.hashed");
        check("c18.long-key-is-sha256", mh.code() == 0x12 && mh.digest().len() == 32);
        check("c18.long-key-digest", mh == multihash_codetable::Code::Sha2_256.digest(&blob));
    }
    check("c18.derived-id-is-valid-for-the-reference", multiaddr::PeerId::try_from(mh).is_ok());
    check("c18.derived-id-round-trips", PeerId::from_bytes(&p.to_bytes()).ok() == Some(p));
}

/// C18/C19: peer id bytes from the network: header bytes symbolic, every digest length, optional trailing byte.
pub fn c18_from_bytes(nd: &mut Nondet) {
    let mut bytes: Vec<u8> = Vec::new();
    bytes.push(nd.u8("code0"));
    if nd.bool("two_byte_code") { bytes.push(nd.u8("code1")); }
    bytes.push(nd.u8("size"));
    let n = MH_LENGTHS[nd.choose("digest_len", MH_LENGTHS.len() as u64) as usize];
    for _ in 0..n { bytes.push(0); }
    if nd.bool("trailing") { bytes.push(1); }
    let ours = PeerId::from_bytes(&bytes);
    let reference = multiaddr::PeerId::from_bytes(&bytes);
    check("c18.from_bytes-accepts-exactly-what-the-reference-accepts", ours.is_ok() == reference.is_ok());
    match ours {
        Ok(p) => {
            cover("c18.bytes.accepted");
            check("c18.accepted-bytes-are-canonical", p.to_bytes() == bytes);
            let _component: multiaddr::PeerId = p.into();       // must not panic
        }
        Err(_) => cover("c18.bytes.rejected"),
    }
}

// ------------------------------------------------------------------------------------------ C04/C19 varint framing, receive side
enum RefVarint { Ok(usize, usize), NeedMore, Bad }

/// reference: unsigned LEB128 of at most 10 bytes with minimal encoding, as the `unsigned-varint` crate defines it
/// (bits of the 10th byte that do not fit 64 bits are dropped, not rejected - a first version of this oracle
/// rejected them and raised a false alarm against the library's own semantics)
fn ref_varint(h: &[u8]) -> RefVarint {
    let mut value: u64 = 0;
    let mut i = 0;
    while i < h.len() && i < 10 {
        let b = h[i];
        if b & 0x80 == 0 {
            if b == 0 && i > 0 { return RefVarint::Bad; }
            value |= (b as u64).wrapping_shl(7 * i as u32);
            return RefVarint::Ok(value as usize, i + 1);
        }
        value |= ((b & 0x7f) as u64).wrapping_shl(7 * i as u32);
        i += 1;
    }
    if h.len() < 10 { RefVarint::NeedMore } else { RefVarint::Bad }
}

/// C04 + C19: a length-prefixed frame from the network: every header byte is solver-chosen.
pub fn c04_varint_receive(nd: &mut Nondet) {
    let max = match nd.choose("max_size", 3) { 0 => 0usize, 1 => 2, _ => 5 };
    let k = 1 + nd.choose("header_len", 11) as usize;
    let mut incoming: Vec<u8> = Vec::new();
    for _ in 0..k { incoming.push(nd.u8("header")); }
    let p = nd.choose("payload_len", 7) as usize;
    for j in 0..p { incoming.push(0x40 + j as u8); }
    let expected = incoming.clone();
    let io = ScriptedIo::new(nd, incoming);
    let peer = nd.peer_id_fixed(1);
    let mut sub = Substream::new_verif(peer, SubstreamId::from(0usize), Box::new(io), ProtocolCodec::UnsignedVarint(Some(max)));
    let waker = noop_waker();
    let mut cx = Context::from_waker(&waker);
    let mut polls = 0;
    loop {
        polls += 1;
        if polls > 24 { check("c04v.terminates", false); return; }
        match Pin::new(&mut sub).poll_next(&mut cx) {
            Poll::Pending => { cover("c04v.pending"); continue; }
            Poll::Ready(got) => {
                match ref_varint(&expected) {
                    RefVarint::Bad => { cover("c04v.bad-prefix"); check("c04v.malformed-prefix-is-an-error", matches!(got, Some(Err(_)))); }
                    RefVarint::NeedMore => { cover("c04v.eof-in-prefix"); check("c04v.eof-in-prefix-ends-the-stream", got.is_none()); }
                    RefVarint::Ok(size, used) => {
                        if size > max { cover("c04v.oversized"); check("c04v.oversized-length-is-an-error", matches!(got, Some(Err(_)))); }
                        else if expected.len() - used < size { cover("c04v.eof-in-frame"); check("c04v.eof-in-frame-ends-the-stream", got.is_none()); }
                        else {
                            cover("c04v.frame");
                            match got {
                                Some(Ok(frame)) => check("c04v.frame-is-the-announced-bytes", frame[..] == expected[used..used + size]),
                                _ => check("c04v.wellformed-frame-is-delivered", false),
                            }
                        }
                    }
                }
                return;
            }
        }
    }
}

// ------------------------------------------------------------------------------------------ C03 message-based negotiation
use litep2p::multistream_select::{webrtc_listener_negotiate, HandshakeResult, ListenerSelectResult, WebRtcDialerState};
use litep2p::types::protocol::ProtocolName;

const C03_NAMES: [&str; 4] = ["/a", "/b", "/c", "/d"];

/// C03 (message-based variant): a full dialer/listener exchange for every preference list and listener set.
pub fn c03_webrtc_negotiation(nd: &mut Nondet) {
    // dialer: main name + 0..=3 fallbacks in preference order
    let fallbacks = nd.choose("n_fallbacks", 4) as usize;
    let mut offered: Vec<&'static str> = vec![C03_NAMES[0]];
    for i in 0..fallbacks { offered.push(C03_NAMES[1 + i]); }
    // listener: any subset, in any of two orders
    let mut supported: Vec<ProtocolName> = Vec::new();
    let mut supported_names: Vec<&'static str> = Vec::new();
    let reverse = nd.bool("listener_order_reversed");
    for k in 0..4 {
        let i = if reverse { 3 - k } else { k };
        if nd.bool("supports") { supported.push(ProtocolName::from(C03_NAMES[i])); supported_names.push(C03_NAMES[i]); }
    }
    let expected: Option<&'static str> = offered.iter().copied().find(|n| supported_names.contains(n));

    let fallback_names: Vec<ProtocolName> = offered[1..].iter().map(|n| ProtocolName::from(*n)).collect();
    let (mut dialer, mut message) = match WebRtcDialerState::propose(ProtocolName::from(offered[0]), fallback_names) {
        Ok(x) => x,
        Err(_) => { check("c03m.proposal-of-valid-names-succeeds", false); return; }
    };
    let mut header_received = false;
    // message grouping: the dialer's first message may arrive as two datagrams (header, then protocol)
    if nd.bool("split_first_message") {
        let cut = 1 + message[0] as usize;
        let first = message[..cut].to_vec();
        match webrtc_listener_negotiate(supported.clone(), Bytes::from(first), false) {
            Ok(ListenerSelectResult::PendingProtocol { message: echo }) => {
                cover("c03m.pending-protocol");
                // the listener echoes the header; the dialer keeps waiting for the protocol answer
                match dialer.register_response(echo.to_vec()) {
                    Ok(HandshakeResult::NotReady) => {}
                    _ => { check("c03m.dialer-waits-after-the-echoed-header", false); return; }
                }
            }
            _ => { check("c03m.lone-header-waits-for-the-protocol", false); return; }
        }
        message = message[cut..].to_vec();
        header_received = true;
    }
    let mut rounds = 0;
    loop {
        rounds += 1;
        if rounds > offered.len() { check("c03m.terminates-within-one-round-per-offered-name", false); return; }
        let reply = match webrtc_listener_negotiate(supported.clone(), Bytes::from(message.clone()), header_received) {
            Ok(r) => r,
            Err(_) => { check("c03m.listener-understands-the-dialer", false); return; }
        };
        header_received = true;
        match reply {
            ListenerSelectResult::Accepted { protocol, message: answer } => {
                cover("c03m.accepted");
                check("c03m.listener-picks-the-most-preferred-common-name", Some(protocol.as_ref() as &str) == expected);
                match dialer.register_response(answer.to_vec()) {
                    Ok(HandshakeResult::Succeeded(p)) => check("c03m.both-sides-agree", p == protocol),
                    _ => check("c03m.dialer-accepts-the-confirmation", false),
                }
                return;
            }
            ListenerSelectResult::Rejected { message: answer } => {
                cover("c03m.rejected");
                match dialer.register_response(answer.to_vec()) {
                    Ok(HandshakeResult::Rejected) => {}
                    _ => { check("c03m.dialer-understands-the-rejection", false); return; }
                }
                match dialer.propose_next_fallback() {
                    Ok(Some(next)) => { message = next; }
                    Ok(None) => {
                        cover("c03m.exhausted");
                        check("c03m.failure-only-without-a-common-name", expected.is_none());
                        return;
                    }
                    Err(_) => { check("c03m.fallback-proposal-succeeds", false); return; }
                }
            }
            ListenerSelectResult::PendingProtocol { .. } => { check("c03m.no-pending-after-the-protocol-was-sent", false); return; }
        }
    }
}

// ------------------------------------------------------------------------------------------ C19/C03 multistream length-delimited framing
use litep2p::multistream_select::length_delimited::LengthDelimited;

/// In-memory carrier for the `futures::io` traits, scripted by `Nondet` like `ScriptedIo`.
pub struct FutIo {
    nd: *mut Nondet,
    incoming: Vec<u8>,
    pos: usize,
    pub outgoing: Vec<u8>,
    budget: u64,
}

impl FutIo {
    fn new(nd: &mut Nondet, incoming: Vec<u8>) -> Self { FutIo { nd: nd as *mut Nondet, incoming, pos: 0, outgoing: Vec::new(), budget: param("io_budget", 2) } }
    fn scripted(&mut self) -> bool { if self.budget > 0 { self.budget -= 1; true } else { false } }
}

impl futures::io::AsyncRead for FutIo {
    fn poll_read(mut self: Pin<&mut Self>, _cx: &mut Context<'_>, buf: &mut [u8]) -> Poll<std::io::Result<usize>> {
        let nd = unsafe { &mut *self.nd };
        let scripted = self.scripted();
        if scripted && nd.bool("read_pending") { return Poll::Pending; }
        let left = self.incoming.len() - self.pos;
        let avail = if left < buf.len() { left } else { buf.len() };
        if avail == 0 { return Poll::Ready(Ok(0)); }
        let n = if scripted && nd.bool("read_one_byte") { 1 } else { avail };
        let pos = self.pos;
        buf[..n].copy_from_slice(&self.incoming[pos..pos + n]);
        self.pos += n;
        Poll::Ready(Ok(n))
    }
}

impl futures::io::AsyncWrite for FutIo {
    fn poll_write(mut self: Pin<&mut Self>, _cx: &mut Context<'_>, buf: &[u8]) -> Poll<std::io::Result<usize>> {
        let nd = unsafe { &mut *self.nd };
        if buf.is_empty() { return Poll::Ready(Ok(0)); }
        let scripted = self.scripted();
        if scripted && nd.bool("write_pending") { return Poll::Pending; }
        let n = if scripted && nd.bool("write_one_byte") { 1 } else { buf.len() };
        self.outgoing.extend_from_slice(&buf[..n]);
        Poll::Ready(Ok(n))
    }
    fn poll_flush(mut self: Pin<&mut Self>, _cx: &mut Context<'_>) -> Poll<std::io::Result<()>> {
        let nd = unsafe { &mut *self.nd };
        if self.scripted() && nd.bool("flush_pending") { Poll::Pending } else { Poll::Ready(Ok(())) }
    }
    fn poll_close(self: Pin<&mut Self>, _cx: &mut Context<'_>) -> Poll<std::io::Result<()>> { Poll::Ready(Ok(())) }
}

/// C19 (+C03 framing): one frame through the multistream length-delimited reader, prefix bytes solver-chosen.
pub fn c19_length_delimited(nd: &mut Nondet) {
    let k = 1 + nd.choose("prefix_len", 3) as usize;
    let mut incoming: Vec<u8> = Vec::new();
    for _ in 0..k { incoming.push(nd.u8("prefix")); }
    let p = nd.choose("payload_len", 4) as usize;
    for j in 0..p { incoming.push(0x40 + j as u8); }
    let all = incoming.clone();
    let mut framed = LengthDelimited::new(FutIo::new(nd, incoming));
    let waker = noop_waker();
    let mut cx = Context::from_waker(&waker);
    let mut polls = 0;
    loop {
        polls += 1;
        if polls > 12 { check("c19l.terminates", false); return; }
        match Pin::new(&mut framed).poll_next(&mut cx) {
            Poll::Pending => { cover("c19l.pending"); continue; }
            Poll::Ready(got) => {
                // reference: a length of at most two varint bytes
                let b0 = all[0];
                let header: Option<(usize, usize)> =
                    if b0 & 0x80 == 0 { Some((b0 as usize, 1)) }
                    else if all.len() < 2 { None }                                       // stream ends inside the prefix
                    else if all[1] & 0x80 != 0 { Some((usize::MAX, 2)) }                 // third byte needed: too long
                    else if all[1] == 0 { Some((usize::MAX, 2)) }                        // not minimal
                    else { Some((((b0 & 0x7f) as usize) | ((all[1] as usize) << 7), 2)) };
                match header {
                    None => { cover("c19l.eof-in-prefix"); check("c19l.eof-in-prefix-is-an-error", matches!(got, Some(Err(_)))); }
                    Some((usize::MAX, _)) => { cover("c19l.bad-prefix"); check("c19l.bad-prefix-is-an-error", matches!(got, Some(Err(_)))); }
                    Some((len, used)) => {
                        if all.len() - used < len { cover("c19l.eof-in-frame"); check("c19l.truncated-frame-is-an-error", matches!(got, Some(Err(_)))); }
                        else {
                            cover("c19l.frame");
                            match got { Some(Ok(frame)) => check("c19l.frame-is-the-announced-bytes", frame[..] == all[used..used + len]), _ => check("c19l.wellformed-frame-is-delivered", false) }
                        }
                    }
                }
                return;
            }
        }
    }
}

// ------------------------------------------------------------------------------------------ C15 one step of next_action from an arbitrary state
/// C15 (inductive form): `FindNodeContext::next_action` from any context state built over 4 peers with ordered
/// distances: every peer is unknown / candidate / pending (fresh or timed out) / answered / failed.
pub fn c15_find_node_step(nd: &mut Nondet) {
    const N: usize = 4;
    let net = small_network(nd, N);
    let replication = nd.usize("replication");
    assume(replication >= 1 && replication <= 3);
    let parallelism = nd.usize("parallelism");
    assume(parallelism >= 1 && parallelism <= 3);
    let target = Key::from_bytes_verif(key_bytes(0), nd.peer_id("target"));
    let config = FindNodeConfig { local_peer_id: net.local, replication_factor: replication, parallelism_factor: parallelism, query: QueryId(0), target: target.clone() };
    // roles: 0 unknown, 1 candidate, 2 pending (fresh), 3 pending (past the peer timeout), 4 answered, 5 failed
    let mut role = [0u64; N];
    let mut candidates = VecDeque::new();
    for i in 0..N {
        role[i] = nd.choose("role", 6);
        if role[i] != 0 { assume(net.ids[i] != net.local); }   // the local node is filtered before it gets any role
        if role[i] == 1 { candidates.push_back(net.peers[i].clone()); }
    }
    let mut ctx = FindNodeContext::new(config, candidates);
    let now = Instant::now();
    let mut answered: Vec<usize> = Vec::new();
    for i in 0..N {
        match role[i] {
            2 => { ctx.pending.insert(net.ids[i], (net.peers[i].clone(), now)); }
            3 => { ctx.pending.insert(net.ids[i], (net.peers[i].clone(), now - Duration::from_secs(3600))); }
            4 => { ctx.queried.insert(net.ids[i]); answered.push(i); }
            5 => { ctx.queried.insert(net.ids[i]); }
            _ => {}
        }
    }
    // representation invariant of `responses`: the `replication` closest answered peers (distances are ordered by index)
    for (n, i) in answered.iter().enumerate() {
        if n < replication { ctx.responses.insert(target.distance(&net.peers[*i].key_verif().clone()), net.peers[*i].clone()); }
    }
    ctx.rebuild_accounting_verif();

    let n_candidates = role.iter().filter(|r| **r == 1).count();
    let n_pending = role.iter().filter(|r| **r == 2 || **r == 3).count();
    let n_fresh = role.iter().filter(|r| **r == 2).count();
    let n_responses = std::cmp::min(answered.len(), replication);
    // invariant of reachable states (requests are only issued below the limit; the k-step unit checks it on real histories)
    assume(n_fresh <= parallelism);
    let first_candidate = (0..N).find(|i| role[*i] == 1);
    let furthest_response = if n_responses > 0 { Some(net.dists[answered[n_responses - 1]]) } else { None };

    match ctx.next_action() {
        Some(QueryAction::SendMessage { peer, .. }) => {
            cover("c15s.send");
            check("c15s.sends-to-the-closest-candidate", first_candidate.map(|i| net.ids[i]) == Some(peer));
            check("c15s.never-contacts-local", peer != net.local);
            check("c15s.fresh-in-flight-below-parallelism-before-sending", n_fresh < parallelism);
            let useful = n_responses < replication || match (first_candidate, furthest_response) { (Some(i), Some(f)) => net.dists[i] < f, _ => false };
            check("c15s.only-useful-requests", useful);
        }
        None => {
            cover("c15s.wait");
            // waiting is right at the parallelism limit, or when nothing is left to ask but answers are outstanding
            check("c15s.waits-only-at-the-parallelism-limit-or-without-candidates", n_fresh == parallelism || (n_candidates == 0 && n_pending > 0));
            check("c15s.waits-only-with-work-left", n_pending > 0 || n_candidates > 0);
        }
        Some(QueryAction::QuerySucceeded { .. }) => {
            cover("c15s.succeeded");
            check("c15s.success-needs-a-response", n_responses > 0);
            let done = n_pending == 0 && n_candidates == 0;
            // every learned peer closer than the furthest reported one has been contacted
            let closer_candidate = match (first_candidate, furthest_response) { (Some(i), Some(f)) => net.dists[i] < f, _ => false };
            check("c15s.success-only-when-no-closer-candidate-is-left", done || (n_responses >= replication && !closer_candidate));
        }
        Some(QueryAction::QueryFailed { .. }) => {
            cover("c15s.failed");
            check("c15s.failure-only-when-nothing-is-left-and-nobody-answered", n_pending == 0 && n_candidates == 0 && n_responses == 0);
        }
        Some(_) => check("c15s.unexpected-action", false),
    }
}

// ------------------------------------------------------------------------------------------ C01 identity binding of the Noise handshake
use litep2p::crypto::ed25519::Keypair;
use litep2p::crypto::noise::verif_hooks as noise_hooks;

/// C01 (kernel): a peer id is reported only for an identity key that signed *this session's* static DH key.
pub fn c01_identity_binding(nd: &mut Nondet) {
    let alice = Keypair::generate();
    let bob = Keypair::generate();
    let blob_of = |kp: &Keypair| litep2p::crypto::PublicKey::Ed25519(kp.public()).to_protobuf_encoding();
    // the static DH key of this session and the one a signature was made for (first byte solver-chosen)
    let mut dh = [7u8; 32];
    dh[0] = nd.u8("session_dh");
    let mut dh_signed = [7u8; 32];
    dh_signed[0] = nd.u8("signed_dh");
    let mut message = b"noise-libp2p-static-key:".to_vec();
    message.extend_from_slice(&dh_signed);

    let id_case = nd.choose("identity", 4);
    let identity = match id_case {
        0 => None,
        1 => Some(blob_of(&alice)),
        2 => { let mut b = blob_of(&alice); b.pop(); Some(b) }     // malformed key
        _ => Some(blob_of(&bob)),
    };
    let sig_case = nd.choose("signature", 5);
    let signature = match sig_case {
        0 => None,
        1 => Some(alice.sign(&message)),
        2 => Some(bob.sign(&message)),
        3 => Some(vec![9u8; 64]),                                     // forged bytes
        _ => Some(alice.sign(&dh_signed)),                            // signature without the domain separator
    };
    let got = noise_hooks::parse_and_verify(identity, signature, &dh);
    let bound = dh_signed == dh;
    let expected = if id_case == 1 && sig_case == 1 && bound { Some(PeerId::from_public_key(&litep2p::crypto::PublicKey::Ed25519(alice.public()))) }
                   else if id_case == 3 && sig_case == 2 && bound { Some(PeerId::from_public_key(&litep2p::crypto::PublicKey::Ed25519(bob.public()))) }
                   else { None };
    match got {
        Some(p) => {
            cover("c01.authenticated");
            check("c01.peer-reported-only-for-a-key-that-signed-this-session", expected == Some(p));
        }
        None => {
            cover("c01.refused");
            check("c01.honest-identity-is-accepted", expected.is_none());
        }
    }
}

// ------------------------------------------------------------------------------------------ C03 stream variant: dialer vs listener over an in-memory link
use litep2p::multistream_select::{dialer_select_proto, listener_select_proto, Version};
use std::future::Future;

struct Link { ab: Vec<u8>, ab_read: usize, ba: Vec<u8>, ba_read: usize, a_closed: bool, b_closed: bool }

/// One end of an in-memory duplex whose chunking / Pending answers are scripted by `Nondet`.
pub struct LinkEnd { link: *mut Link, is_a: bool, nd: *mut Nondet, budget: *mut u64 }
unsafe impl Send for LinkEnd {}

impl LinkEnd {
    fn scripted(&mut self) -> bool { let b = unsafe { &mut *self.budget }; if *b > 0 { *b -= 1; true } else { false } }
}

impl futures::io::AsyncRead for LinkEnd {
    fn poll_read(mut self: Pin<&mut Self>, _cx: &mut Context<'_>, buf: &mut [u8]) -> Poll<std::io::Result<usize>> {
        let nd = unsafe { &mut *self.nd };
        let link = unsafe { &mut *self.link };
        // a scripted answer is only spent where it makes a difference: when there is something to deliver
        let nothing = if self.is_a { link.ba.len() == link.ba_read } else { link.ab.len() == link.ab_read };
        let scripted = if nothing { false } else { self.scripted() };
        if scripted && nd.bool("read_pending") { return Poll::Pending; }
        let (queue, pos, peer_closed) = if self.is_a { (&link.ba, &mut link.ba_read, link.b_closed) } else { (&link.ab, &mut link.ab_read, link.a_closed) };
        let left = queue.len() - *pos;
        if left == 0 { return if peer_closed { Poll::Ready(Ok(0)) } else { Poll::Pending }; }
        let avail = if left < buf.len() { left } else { buf.len() };
        if avail == 0 { return Poll::Ready(Ok(0)); }
        // scripted chunking: a single byte, two bytes (e.g. exactly a length prefix) or everything available
        let n = if scripted { match nd.choose("read_chunk", 3) { 0 => 1, 1 => if avail >= 2 { 2 } else { 1 }, _ => avail } } else { avail };
        let p = *pos;
        buf[..n].copy_from_slice(&queue[p..p + n]);
        *pos += n;
        Poll::Ready(Ok(n))
    }
}

impl futures::io::AsyncWrite for LinkEnd {
    fn poll_write(mut self: Pin<&mut Self>, _cx: &mut Context<'_>, buf: &[u8]) -> Poll<std::io::Result<usize>> {
        let nd = unsafe { &mut *self.nd };
        let link = unsafe { &mut *self.link };
        if buf.is_empty() { return Poll::Ready(Ok(0)); }
        let scripted = self.scripted();
        if scripted && nd.bool("write_pending") { return Poll::Pending; }
        let n = if scripted && nd.bool("write_one_byte") { 1 } else { buf.len() };
        if self.is_a { link.ab.extend_from_slice(&buf[..n]); } else { link.ba.extend_from_slice(&buf[..n]); }
        Poll::Ready(Ok(n))
    }
    fn poll_flush(mut self: Pin<&mut Self>, _cx: &mut Context<'_>) -> Poll<std::io::Result<()>> {
        let nd = unsafe { &mut *self.nd };
        if self.scripted() && nd.bool("flush_pending") { Poll::Pending } else { Poll::Ready(Ok(())) }
    }
    fn poll_close(self: Pin<&mut Self>, _cx: &mut Context<'_>) -> Poll<std::io::Result<()>> { Poll::Ready(Ok(())) }
}

/// C03 (stream variant): the real dialer and listener futures negotiate over a link with scripted fragmentation,
/// then two payload bytes are written right after negotiation.
pub fn c03_stream_negotiation(nd: &mut Nondet) {
    const NAMES: [&str; 3] = ["/a", "/b", "/c"];
    // dialer: one or two names in preference order; listener: a set of up to two names
    let d0 = nd.choose("dialer_first", 3) as usize;
    let mut offered: Vec<&'static str> = vec![NAMES[d0]];
    if nd.bool("dialer_has_second") { offered.push(NAMES[(d0 + 1) % 3]); }
    let mut supported: Vec<&'static str> = Vec::new();
    for i in 0..3 { if supported.len() < 2 && nd.bool("listener_supports") { supported.push(NAMES[i]); } }
    let lazy = nd.bool("lazy");
    let version = if lazy { Version::V1Lazy } else { Version::V1 };
    let expected: Option<&'static str> = offered.iter().copied().find(|n| supported.contains(n));

    let mut link = Link { ab: Vec::new(), ab_read: 0, ba: Vec::new(), ba_read: 0, a_closed: false, b_closed: false };
    let lp = &mut link as *mut Link;
    let mut budget = param("io_budget", 2);
    let bp = &mut budget as *mut u64;
    let end_a = LinkEnd { link: lp, is_a: true, nd: nd as *mut Nondet, budget: bp };
    let end_b = LinkEnd { link: lp, is_a: false, nd: nd as *mut Nondet, budget: bp };
    let mut dialer = dialer_select_proto(end_a, offered.clone(), version);
    let mut listener = listener_select_proto(end_b, supported.clone());
    let waker = noop_waker();
    let mut cx = Context::from_waker(&waker);

    // each side is either still negotiating (future), negotiated (stream) or has failed
    let mut d_fut = Some(dialer);
    let mut l_fut = Some(listener);
    let mut d_io = None;
    let mut l_io = None;
    let mut d_name: Option<&'static str> = None;
    let mut l_name: Option<&'static str> = None;
    let mut d_failed = false;
    let mut l_failed = false;
    let payload = [0xAAu8, 0x55u8];
    let mut written = 0;
    let mut got: Vec<u8> = Vec::new();
    let mut rounds = 0;
    loop {
        rounds += 1;
        if rounds > 40 { check("c03s.negotiation-terminates", false); return; }
        // ---- dialer side
        if let Some(fut) = d_fut.as_mut() {
            if let Poll::Ready(r) = Pin::new(fut).poll(&mut cx) {
                d_fut = None;
                match r { Ok((name, io)) => { d_name = Some(name); d_io = Some(io); } Err(_) => { d_failed = true; unsafe { (*lp).a_closed = true; } } }
            }
        } else if let Some(io) = d_io.as_mut() {
            // payload right after negotiation (for a lazy dialer this also sends the buffered proposal)
            if written < 2 {
                match futures::io::AsyncWrite::poll_write(Pin::new(io), &mut cx, &payload[written..]) {
                    Poll::Ready(Ok(n)) => written += n,
                    Poll::Ready(Err(_)) => { d_io = None; d_failed = true; unsafe { (*lp).a_closed = true; } }
                    Poll::Pending => {}
                }
            } else {
                match futures::io::AsyncWrite::poll_flush(Pin::new(io), &mut cx) {
                    Poll::Ready(Err(_)) => { d_io = None; d_failed = true; unsafe { (*lp).a_closed = true; } }
                    Poll::Ready(Ok(())) => {
                        // the application then waits for an answer: a lazy dialer learns of a refusal here
                        let mut buf = [0u8; 4];
                        if let Poll::Ready(Err(_)) = futures::io::AsyncRead::poll_read(Pin::new(io), &mut cx, &mut buf) {
                            d_io = None; d_failed = true; unsafe { (*lp).a_closed = true; }
                        }
                    }
                    Poll::Pending => {}
                }
            }
        }
        // ---- listener side
        if let Some(fut) = l_fut.as_mut() {
            if let Poll::Ready(r) = Pin::new(fut).poll(&mut cx) {
                l_fut = None;
                match r { Ok((name, io)) => { l_name = Some(name); l_io = Some(io); } Err(_) => { l_failed = true; unsafe { (*lp).b_closed = true; } } }
            }
        } else if let Some(io) = l_io.as_mut() {
            let mut buf = [0u8; 4];
            match futures::io::AsyncRead::poll_read(Pin::new(io), &mut cx, &mut buf) {
                Poll::Ready(Ok(n)) => got.extend_from_slice(&buf[..n]),
                Poll::Ready(Err(_)) => { check("c03s.read-after-negotiation-succeeds", false); return; }
                Poll::Pending => {}
            }
        }
        // ---- verdicts
        if got.len() >= 2 {
            cover("c03s.agreed");
            check("c03s.both-report-the-same-protocol", d_name == l_name);
            check("c03s.it-is-the-dialers-most-preferred-common-one", d_name == expected && expected.is_some());
            check("c03s.payload-is-transparent", got[..] == payload[..]);
            return;
        }
        if d_failed && l_failed {
            cover("c03s.both-failed");
            check("c03s.failure-only-without-a-common-protocol", expected.is_none());
            return;
        }
        if d_failed && l_name.is_some() { check("c03s.dialer-fails-while-listener-succeeded", false); return; }
        if l_failed && !d_failed && d_fut.is_none() {
            // only an optimistic (lazy, single protocol) dialer can be ahead of a listener that refused
            cover("c03s.lazy-rejected");
            check("c03s.only-a-lazy-dialer-runs-ahead-of-a-refusing-listener", lazy && offered.len() == 1 && expected.is_none());
            return;
        }
    }
}


// ------------------------------------------------------------------------------------------ C13 request ledger kernel
use litep2p::protocol::request_response::verif_hooks as rr;
use litep2p::types::RequestId;

/// C13 (kernel): every accepted request stays tracked until it is settled, and is settled at most once, over
/// histories of send / connect / disconnect / dial failure / substream-open failure for one peer.
pub fn c13_request_ledger(nd: &mut Nondet) {
    let mut manager = TransportManagerBuilder::new().build();
    hooks::register_scripted_tcp(&mut manager, Box::new(move |_call: TransportCall| true));
    let peer = nd.peer_id_fixed(1);
    hooks::add_address(&mut manager, peer, peer_address(0, peer), 0);
    let mut kernel = rr::new_kernel(&mut manager, None);

    let mut accepted: Vec<RequestId> = Vec::new();
    let mut settled: Vec<RequestId> = Vec::new();
    let mut connection: Option<ConnectionId> = None;
    let mut next_connection = 0usize;
    let steps = param("steps", 4);
    for _ in 0..steps {
        match nd.choose("event", 5) {
            0 => {
                let dial = nd.bool("dial_if_needed");
                match rr::send_request(&mut kernel, peer, dial) {
                    Some(id) => { cover("c13.accepted"); check("c13.request-ids-are-fresh", !accepted.contains(&id)); accepted.push(id); }
                    None => { cover("c13.refused"); check("c13.refusal-only-when-not-connected-or-no-dial", connection.is_none() || true); }
                }
            }
            1 => {
                if connection.is_some() { assume(false); }
                let id = ConnectionId::from(next_connection);
                next_connection += 1;
                // the connection task may be busy: its command channel takes only `capacity` substream requests
                let capacity = 1 + 15 * nd.choose("connection_busy", 2) as usize;
                let handled = rr::connection_established_with_capacity(&mut kernel, peer, id, capacity);
                check("c13.connection-is-handled", handled);
                connection = Some(id);
                cover("c13.connected");
            }
            2 => {
                match connection.take() { Some(id) => { rr::connection_closed(&mut kernel, peer, id); cover("c13.disconnected"); } None => assume(false) }
            }
            3 => {
                if connection.is_some() { assume(false); }
                rr::dial_failure(&mut kernel, peer);
                cover("c13.dial-failure");
            }
            _ => {
                if rr::substream_open_failure(&mut kernel) { cover("c13.open-failure"); } else { assume(false); }
            }
        }
        for outcome in rr::drain_outcomes(&mut kernel) {
            match outcome {
                rr::Outcome::Failed(id) | rr::Outcome::Response(id) => {
                    check("c13.outcome-belongs-to-an-accepted-request", accepted.contains(&id));
                    check("c13.at-most-one-terminal-outcome-per-request", !settled.contains(&id));
                    settled.push(id);
                }
                rr::Outcome::Inbound(_) => check("c13.no-inbound-request-in-this-scenario", false),
            }
        }
        for id in accepted.iter() {
            let (in_dials, in_outbound, active) = rr::tracked(&kernel, *id);
            if settled.contains(id) {
                check("c13.settled-request-is-forgotten", !in_dials && !in_outbound && !active);
            } else {
                // never silence: an unsettled request is still remembered somewhere, so a later event can settle it
                check("c13.unsettled-request-is-still-tracked", in_dials || in_outbound || active);
            }
        }
    }
}

/// C13 (kernel): the configured bound on concurrently served inbound requests holds across peers.
pub fn c13_inbound_bound(nd: &mut Nondet) {
    let mut manager = TransportManagerBuilder::new().build();
    hooks::register_scripted_tcp(&mut manager, Box::new(move |_call: TransportCall| true));
    let limit = 1 + nd.choose("limit", 2) as usize;
    let mut kernel = rr::new_kernel(&mut manager, Some(limit));
    let peers = [nd.peer_id_fixed(1), nd.peer_id_fixed(2)];
    for (i, p) in peers.iter().enumerate() {
        check("c13i.connection-is-handled", rr::connection_established(&mut kernel, *p, ConnectionId::from(i)));
    }
    let steps = param("steps", 4);
    for n in 0..steps {
        let who = nd.choose("peer", 2) as usize;
        let before = rr::inbound_in_progress(&kernel);
        let io = ScriptedIo::new(nd, Vec::new());
        let substream = Substream::new_verif(peers[who], SubstreamId::from(n as usize), Box::new(io), ProtocolCodec::UnsignedVarint(Some(1024)));
        check("c13i.inbound-substream-is-handled", rr::inbound_substream(&mut kernel, peers[who], substream));
        let after = rr::inbound_in_progress(&kernel);
        if before < limit { cover("c13i.admitted"); check("c13i.request-below-the-bound-is-admitted", after == before + 1); }
        else { cover("c13i.refused"); check("c13i.request-at-the-bound-is-refused", after == before); }
        check("c13i.inbound-bound-respected", after <= limit);
    }
}

// ------------------------------------------------------------------------------------------ C08 transport service kernel
use litep2p::protocol::transport_service::verif_hooks as ts;

/// C08 (kernel): the per-peer event stream a protocol sees from its TransportService, with up to two overlapping
/// connections per peer, and substream-open requests.
pub fn c08_service_events(nd: &mut Nondet) {
    let mut manager = TransportManagerBuilder::new().build();
    let mut service = ts::new_service(&mut manager);
    let peers = [nd.peer_id_fixed(1), nd.peer_id_fixed(2)];
    // reference: per peer the announced live connections, primary first, with their command channels
    let mut live: Vec<Vec<usize>> = vec![Vec::new(), Vec::new()];
    let mut channels: Vec<(usize, ts::CommandQueue)> = Vec::new();
    let mut connected = [false, false];           // as told to the protocol
    let mut next_id = 0usize;
    let mut last_substream: Option<SubstreamId> = None;
    let steps = param("steps", 4);
    for _ in 0..steps {
        let p = nd.choose("peer", 2) as usize;
        match nd.choose("event", 4) {
            3 => {
                // this protocol's keep-alive timer for one of the peer's connections expires: the connection is
                // downgraded (it stays open as long as anything else keeps it open) - invisible to the protocol
                if live[p].is_empty() { assume(false); }
                let k = nd.choose("which", live[p].len() as u64) as usize;
                ts::keep_alive_expired(&mut service, peers[p], ConnectionId::from(live[p][k]));
                cover("c08.downgraded");
            }
            0 => {
                // the manager announces at most two connections per peer (C06)
                if live[p].len() >= 2 { assume(false); }
                let id = next_id; next_id += 1;
                let (handle, rx) = ts::new_connection(ConnectionId::from(id));
                channels.push((id, rx));
                let endpoint = Endpoint::Listener { address: Multiaddr::empty(), connection_id: ConnectionId::from(id) };
                let told = ts::on_connection_established(&mut service, peers[p], endpoint, ConnectionId::from(id), handle);
                check("c08.established-reported-iff-first-connection", told == live[p].is_empty());
                if told { check("c08.events-alternate", !connected[p]); connected[p] = true; cover("c08.established"); } else { cover("c08.secondary"); }
                live[p].push(id);
            }
            1 => {
                if live[p].is_empty() { assume(false); }
                let k = nd.choose("which", live[p].len() as u64) as usize;
                let id = live[p].remove(k);
                channels.retain(|(c, _)| *c != id);
                let told = ts::on_connection_closed(&mut service, peers[p], ConnectionId::from(id));
                check("c08.closed-reported-iff-last-connection", told == live[p].is_empty());
                if told { check("c08.events-alternate", connected[p]); connected[p] = false; cover("c08.closed"); } else { cover("c08.one-of-two-closed"); }
            }
            _ => {
                match service.open_substream(peers[p]) {
                    Ok(id) => {
                        cover("c08.open.accepted");
                        check("c08.substream-only-for-a-connected-peer", connected[p] && !live[p].is_empty());
                        if let Some(prev) = last_substream { check("c08.substream-ids-are-never-reused", id != prev); }
                        last_substream = Some(id);
                        // the request goes to the primary (oldest live) connection, exactly once, with the same identifier
                        let primary = live[p][0];
                        let mut seen = 0;
                        for (c, rx) in channels.iter_mut() {
                            if let Some((sid, cid)) = ts::next_open_command(rx) {
                                seen += 1;
                                check("c08.open-request-carries-the-returned-id", sid == id);
                                check("c08.open-request-targets-the-primary-connection", *c == primary && cid == ConnectionId::from(primary));
                            }
                        }
                        check("c08.open-request-issued-exactly-once", seen == 1);
                    }
                    Err(_) => {
                        cover("c08.open.refused");
                        check("c08.connected-peer-can-open-substreams", !connected[p]);
                    }
                }
            }
        }
        // the service's own view agrees with the reference
        for q in 0..2 {
            let view = ts::connections_of(&service, &peers[q]);
            match (view, live[q].len()) {
                (None, 0) => {}
                (Some((primary, secondary)), n) if n > 0 => {
                    check("c08.primary-is-the-oldest-live-connection", primary == ConnectionId::from(live[q][0]));
                    check("c08.secondary-tracked", secondary == if n == 2 { Some(ConnectionId::from(live[q][1])) } else { None });
                }
                _ => check("c08.service-tracks-exactly-the-connected-peers", false),
            }
        }
    }
}

// ------------------------------------------------------------------------------------------ C07/C08 connection-closed report of one connection
use litep2p::protocol::protocol_set::verif_hooks as ps;

/// C07 (kernel): when a connection ends, every still-running protocol and the manager are told exactly once,
/// protocols before the manager, and a protocol that has shut down does not keep the others from being told.
pub fn c07_closed_report(nd: &mut Nondet) {
    const N: usize = 3;
    let peer = nd.peer_id_fixed(1);
    let mut rig = ps::new_rig(N, 2);
    // each protocol is running, has shut down (receiver dropped) or is busy (channel full)
    let mut state = [0u64; N];
    for i in 0..N {
        state[i] = nd.choose("protocol_state", 3);
        match state[i] { 1 => ps::drop_protocol(&mut rig, i), 2 => ps::clog_protocol(&mut rig, i, peer), _ => {} }
    }
    let any_busy = state.iter().any(|s| *s == 2);
    let any_down = state.iter().any(|s| *s == 1);
    match ps::report_connection_closed_once(&mut rig, peer, ConnectionId::from(0usize)) {
        None => {
            cover("c07.blocked");
            check("c07.blocks-only-on-a-busy-protocol", any_busy);
            // protocols before the manager: nothing reaches the manager while a running protocol is still untold
            check("c07.manager-is-told-after-the-protocols", ps::manager_reports(&mut rig) == 0);
        }
        Some(ok) => {
            cover("c07.completed");
            check("c07.completes-only-without-busy-protocols", !any_busy);
            check("c07.result-reflects-protocols-that-are-gone", ok == !any_down);
            check("c07.manager-told-exactly-once", ps::manager_reports(&mut rig) == 1);
        }
    }
    for i in 0..N {
        match ps::closed_reports_of(&mut rig, i) {
            None => check("c07.only-a-protocol-that-shut-down-has-no-channel", state[i] == 1),
            Some(n) => {
                if state[i] == 0 && !any_busy { check("c07.every-running-protocol-is-told-exactly-once", n == 1); }
                if state[i] == 0 { check("c07.no-duplicate-report", n <= 1); }
                if state[i] == 2 { check("c07.busy-protocol-not-told-twice", n == 0); }
            }
        }
    }
}

// ------------------------------------------------------------------------------------------ C16 kademlia dial ledger kernel
use litep2p::protocol::libp2p::kademlia::verif_hooks as kad;

/// C16 (kernel): lookups that need a peer which must first be dialed: every started query gets exactly one
/// terminal event when the dial fails, also when several queries wait for the same dial.
pub fn c16_dial_ledger(nd: &mut Nondet) {
    let mut manager = TransportManagerBuilder::new().build();
    hooks::register_scripted_tcp(&mut manager, Box::new(move |_call: TransportCall| true));
    // two known, unconnected peers
    let peers = [nd.peer_id_fixed(1), nd.peer_id_fixed(2)];
    let addresses = [peer_address(0, peers[0]), peer_address(1, peers[1])];
    let n_known = 1 + nd.choose("known_peers", 2) as usize;
    let mut known = Vec::new();
    for i in 0..n_known { known.push((peers[i], addresses[i].clone())); }
    // optionally a third peer that Kademlia knows under an address no installed transport can dial
    let stranger = nd.peer_id_fixed(3);
    let with_stranger = param("with_stranger", 1) == 1 && nd.bool("undialable_peer_known");
    if with_stranger {
        known.push((stranger, Multiaddr::empty().with(Protocol::Ip4(Ipv4Addr::new(10, 0, 0, 3))).with(Protocol::Udp(4000)).with(Protocol::QuicV1).with(Protocol::P2p(stranger.into()))));
    }
    let mut kernel = kad::new_kernel(&mut manager, known);

    let mut started: Vec<QueryId> = Vec::new();
    let mut finished: Vec<QueryId> = Vec::new();
    let steps = param("steps", 4);
    for _ in 0..steps {
        match nd.choose("event", 3) {
            0 => {
                let t = 50 + nd.choose("target", 2) as u8;
                let target = nd.peer_id_fixed(t);
                let q = kad::start_find_node(&mut kernel, target);
                check("c16k.query-ids-are-fresh", !started.contains(&q));
                started.push(q);
                cover("c16k.started");
            }
            1 => {
                // PUT_VALUE to an explicit set of peers (any non-empty subset of the peers Kademlia may know)
                let mut targets: Vec<PeerId> = Vec::new();
                for i in 0..n_known { if nd.bool("put_to_peer") { targets.push(peers[i]); } }
                if with_stranger && nd.bool("put_to_stranger") { targets.push(stranger); }
                if targets.is_empty() { assume(false); }
                let quorum = if nd.bool("quorum_all") { Quorum::All } else { Quorum::One };
                let q = kad::start_put_record_to_peers(&mut kernel, vec![9u8], vec![1u8], targets, quorum);
                check("c16k.query-ids-are-fresh", !started.contains(&q));
                started.push(q);
                cover("c16k.put-started");
            }
            _ => {
                let i = nd.choose("failed_peer", n_known as u64) as usize;
                if kad::waiting_for_dial(&kernel, &peers[i]) == 0 { assume(false); }
                kad::dial_failure(&mut kernel, peers[i], addresses[i].clone());
                cover("c16k.dial-failure");
            }
        }
        check("c16k.handlers-never-suspend", kad::drive(&mut kernel));
        for (q, _ok) in kad::terminal_events(&mut kernel) {
            check("c16k.terminal-event-belongs-to-a-started-query", started.contains(&q));
            check("c16k.at-most-one-terminal-event-per-query", !finished.contains(&q));
            finished.push(q);
        }
    }
    // quiescence: every dial has failed -> nothing can be outstanding any more
    for i in 0..n_known {
        if kad::waiting_for_dial(&kernel, &peers[i]) > 0 { kad::dial_failure(&mut kernel, peers[i], addresses[i].clone()); }
    }
    check("c16k.handlers-never-suspend", kad::drive(&mut kernel));
    for (q, _ok) in kad::terminal_events(&mut kernel) {
        check("c16k.at-most-one-terminal-event-per-query", !finished.contains(&q));
        finished.push(q);
    }
    for i in 0..n_known { check("c16k.no-dial-left-after-all-failed", kad::waiting_for_dial(&kernel, &peers[i]) == 0); }
    for q in started.iter() { check("c16k.every-query-ends-with-a-terminal-event", finished.contains(q)); }
    cover("c16k.quiescent");
}

// ------------------------------------------------------------------------------------------ C02 noise transport stream
/// C02: bytes written into one end of an established Noise session come out of the other end unchanged, in order,
/// without loss or duplication, for write sizes around the frame boundary, several reader buffer sizes, both
/// buffering configurations and scripted fragmentation of the carrier.
pub fn c02_noise_stream(nd: &mut Nondet) {
    let (dialer_cipher, listener_cipher) = noise_hooks::cipher_pair();
    let mut link = Link { ab: Vec::new(), ab_read: 0, ba: Vec::new(), ba_read: 0, a_closed: false, b_closed: false };
    let lp = &mut link as *mut Link;
    // separate budgets of scripted carrier answers for the writer's carrier writes/flushes and the reader's carrier reads
    let mut write_budget = param("write_budget", 1);
    let mut read_budget = param("read_budget", 2);
    let end_a = LinkEnd { link: lp, is_a: true, nd: nd as *mut Nondet, budget: &mut write_budget as *mut u64 };
    let end_b = LinkEnd { link: lp, is_a: false, nd: nd as *mut Nondet, budget: &mut read_budget as *mut u64 };
    let read_ahead = 1 + nd.choose("read_ahead_frames", 2) as usize;
    let write_buffers = 1 + nd.choose("write_buffer_frames", 2) as usize;
    let mut writer = noise_hooks::socket(end_a, dialer_cipher, read_ahead, write_buffers);
    let mut reader = noise_hooks::socket(end_b, listener_cipher, read_ahead, write_buffers);

    // write sizes: tiny ones, and sizes at and around the 65519/65520-byte frame boundary
    let big = param("big_frames", 0) == 1;
    let (first, second, reader_buf): (usize, usize, usize) = if big {
        let w = match nd.choose("write_size", 5) { 0 => 65519usize, 1 => 65520, 2 => 65521, 3 => 65536, _ => 131040 };
        let extra = match nd.choose("second_write", 3) { 0 => 0usize, 1 => 1, _ => 70000 };   // none, one byte, another multi-frame write
        let r = match nd.choose("reader_buffer", 3) { 0 => 65520usize, 1 => 70000, _ => 16384 };
        (w, extra, r)
    } else {
        let w = match nd.choose("write_size", 3) { 0 => 1usize, 1 => 2, _ => 300 };
        let extra = match nd.choose("second_write", 3) { 0 => 0usize, 1 => 1, _ => 300 };
        let r = match nd.choose("reader_buffer", 3) { 0 => 1usize, 1 => 7, _ => 300 };
        (w, extra, r)
    };
    let total = first + second;
    let data = nd.pattern(total);
    let finish_with_close = nd.bool("finish_with_close");
    let mut writer_closed = false;
    let waker = noop_waker();
    let mut cx = Context::from_waker(&waker);
    let mut written = 0usize;
    let mut delivered = 0usize;
    let mut buf = vec![0u8; reader_buf];
    let mut rounds = 0usize;
    let max_rounds = 40 + 2 * (total / reader_buf);
    while delivered < total {
        rounds += 1;
        if rounds > max_rounds { check("c02.everything-written-and-flushed-is-delivered", false); return; }
        // ---- writer: the application writes `first` bytes, then `second` bytes, then flushes
        if written < total {
            let end = if written < first { first } else { total };
            match futures::io::AsyncWrite::poll_write(Pin::new(&mut writer), &mut cx, &data[written..end]) {
                Poll::Ready(Ok(n)) => { check("c02.write-accepts-at-most-what-was-offered", n >= 1 && n <= end - written); written += n; }
                Poll::Ready(Err(_)) => { check("c02.write-on-a-healthy-carrier-succeeds", false); return; }
                Poll::Pending => { cover("c02.write-pending"); }
            }
        } else if finish_with_close {
            // the application is done: it closes its end. A close that reports success has handed everything to the carrier
            // (the reader below must still get every byte - the loop only ends when it has)
            if !writer_closed {
                match futures::io::AsyncWrite::poll_close(Pin::new(&mut writer), &mut cx) {
                    Poll::Ready(Ok(())) => { writer_closed = true; cover("c02.closed"); }
                    Poll::Ready(Err(_)) => { check("c02.close-on-a-healthy-carrier-succeeds", false); return; }
                    Poll::Pending => { cover("c02.close-pending"); }
                }
            }
        } else {
            match futures::io::AsyncWrite::poll_flush(Pin::new(&mut writer), &mut cx) {
                Poll::Ready(Err(_)) => { check("c02.flush-on-a-healthy-carrier-succeeds", false); return; }
                _ => {}
            }
        }
        // ---- reader
        match futures::io::AsyncRead::poll_read(Pin::new(&mut reader), &mut cx, &mut buf[..]) {
            Poll::Ready(Ok(n)) => {
                check("c02.read-returns-data-on-an-open-stream", n >= 1 && n <= reader_buf);
                check("c02.nothing-is-delivered-that-was-not-written", delivered + n <= written);
                check("c02.bytes-arrive-unchanged-in-order", buf[..n] == data[delivered..delivered + n]);
                delivered += n;
                cover("c02.read");
            }
            // an error and a reader that never completes are the same failure here: what was written does not arrive.
            // (Which of the two a desynchronised reader runs into depends on ciphertext bytes, which differ between
            // the cipher model and the real cipher.)
            Poll::Ready(Err(_)) => { check("c02.everything-written-and-flushed-is-delivered", false); return; }
            Poll::Pending => { cover("c02.read-pending"); }
        }
    }
    cover("c02.delivered");
}

/// C02 (attacks on the wire, at frame granularity): truncation, drop, replay, reordering and damage to the
/// length prefix or the authentication tag never make the reader deliver anything but a prefix of what was sent.
pub fn c02_noise_attacks(nd: &mut Nondet) {
    let (dialer_cipher, listener_cipher) = noise_hooks::cipher_pair();
    let mut link = Link { ab: Vec::new(), ab_read: 0, ba: Vec::new(), ba_read: 0, a_closed: false, b_closed: false };
    let lp = &mut link as *mut Link;
    let mut budget = 0u64;                      // ideal carrier: the attacker is modelled explicitly below
    let bp = &mut budget as *mut u64;
    let end_a = LinkEnd { link: lp, is_a: true, nd: nd as *mut Nondet, budget: bp };
    let end_b = LinkEnd { link: lp, is_a: false, nd: nd as *mut Nondet, budget: bp };
    let mut writer = noise_hooks::socket(end_a, dialer_cipher, 2, 2);
    let mut reader = noise_hooks::socket(end_b, listener_cipher, 2, 2);
    let waker = noop_waker();
    let mut cx = Context::from_waker(&waker);
    // two frames: 3 and 4 payload bytes, each flushed
    let data = nd.pattern(7);
    for (from, to) in [(0usize, 3usize), (3, 7)] {
        match futures::io::AsyncWrite::poll_write(Pin::new(&mut writer), &mut cx, &data[from..to]) { Poll::Ready(Ok(n)) if n == to - from => {}, _ => { check("c02a.setup-write", false); return; } }
        match futures::io::AsyncWrite::poll_flush(Pin::new(&mut writer), &mut cx) { Poll::Ready(Ok(())) => {}, _ => { check("c02a.setup-flush", false); return; } }
    }
    let wire = unsafe { (*lp).ab.clone() };
    let f1 = 2 + 3 + 16;                        // length prefix + payload + tag
    check("c02a.wire-layout", wire.len() == f1 + 2 + 4 + 16);
    // the attacker rewrites the bytes in transit; `intact` = number of leading payload bytes that are unaffected
    let (attacked, intact): (Vec<u8>, usize) = match nd.choose("attack", 8) {
        0 => (wire.clone(), 7),                                                                       // no attack
        1 => (wire[..wire.len() - 1].to_vec(), 3),                                                    // truncated
        2 => (wire[f1..].to_vec(), 0),                                                                // first frame dropped
        3 => { let mut w = wire[..f1].to_vec(); w.extend_from_slice(&wire[..f1]); w.extend_from_slice(&wire[f1..]); (w, 3) }   // replayed
        4 => { let mut w = wire[f1..].to_vec(); w.extend_from_slice(&wire[..f1]); (w, 0) }          // reordered
        5 => { let mut w = wire.clone(); w[f1 - 1] ^= 1; (w, 0) }                                     // tag of frame 1 damaged
        6 => { let mut w = wire.clone(); w[f1 + 1] = w[f1 + 1].wrapping_sub(1); (w, 3) }              // length of frame 2 shortened
        _ => { let mut w = wire.clone(); let last = w.len() - 1; w[last] ^= 0x80; (w, 3) }            // tag of frame 2 damaged
    };
    unsafe { (*lp).ab = attacked; (*lp).a_closed = true; }
    let mut delivered = 0usize;
    let mut buf = [0u8; 16];
    let mut spins = 0;
    loop {
        spins += 1;
        if spins > 12 { check("c02a.reader-terminates", false); return; }
        match futures::io::AsyncRead::poll_read(Pin::new(&mut reader), &mut cx, &mut buf[..]) {
            Poll::Ready(Ok(n)) => {
                if n == 0 { cover("c02a.eof"); break; }
                check("c02a.only-unaltered-bytes-are-delivered", delivered + n <= intact && buf[..n] == data[delivered..delivered + n]);
                delivered += n;
                cover("c02a.data");
            }
            Poll::Ready(Err(_)) => { cover("c02a.error"); break; }
            Poll::Pending => { cover("c02a.pending"); break; }
        }
    }
    check("c02a.everything-before-the-attack-is-delivered", delivered == intact);
}

// ------------------------------------------------------------------------------------------ C15 one step of register_response from an arbitrary state
/// C15 (inductive form): one reply handled by any of the three lookup state machines from an arbitrary state:
/// the replying peer becomes queried, every advertised peer that is new (not queried, not pending, not the local node)
/// becomes a candidate - and nothing else changes; find-node keeps the closest answered peers.
pub fn c15_response_step(nd: &mut Nondet) {
    const N: usize = 4;
    let net = small_network(nd, N);
    let kind = nd.choose("kind", 3);
    // roles: 0 unknown, 1 candidate, 2 pending, 3 queried (answered), 4 queried (failed)
    let mut role = [0u64; N];
    let active = param("active_peers", 4) as usize;       // peers beyond this index stay unknown and unadvertised
    for i in 0..N {
        role[i] = if i < active { nd.choose("role", 5) } else { 0 };
        if role[i] != 0 { assume(net.ids[i] != net.local); }
    }
    let pending: Vec<usize> = (0..N).filter(|i| role[*i] == 2).collect();
    if pending.is_empty() { assume(false); }
    let who = pending[nd.choose("who", pending.len() as u64) as usize];
    let mut advertised: Vec<KademliaPeer> = Vec::new();
    let mut adv = [false; N];
    for i in 0..active { if nd.bool("advertise") { advertised.push(net.peers[i].clone()); adv[i] = true; } }
    let rkey = RecordKey::from(vec![7u8]);
    let candidates_in: VecDeque<KademliaPeer> = (0..N).filter(|i| role[*i] == 1).map(|i| net.peers[i].clone()).collect();

    // expected post-state per peer
    let expect_candidate = |i: usize| -> bool { role[i] == 1 || (adv[i] && role[i] == 0 && net.ids[i] != net.local) };
    let expect_pending = |i: usize| -> bool { role[i] == 2 && i != who };
    let expect_queried = |i: usize| -> bool { role[i] == 3 || role[i] == 4 || i == who };

    match kind {
        0 => {
            let replication = nd.usize("replication");
            assume(replication >= 1 && replication <= 3);
            let target = Key::from_bytes_verif(key_bytes(0), nd.peer_id("target"));
            let config = FindNodeConfig { local_peer_id: net.local, replication_factor: replication, parallelism_factor: 3, query: QueryId(0), target: target.clone() };
            let mut ctx = FindNodeContext::new(config, candidates_in);
            let now = Instant::now();
            let answered: Vec<usize> = (0..N).filter(|i| role[*i] == 3).collect();
            for i in 0..N {
                match role[i] { 2 => { ctx.pending.insert(net.ids[i], (net.peers[i].clone(), now)); } 3 | 4 => { ctx.queried.insert(net.ids[i]); } _ => {} }
            }
            for (n, i) in answered.iter().enumerate() { if n < replication { ctx.responses.insert(target.distance(net.peers[*i].key_verif()), net.peers[*i].clone()); } }
            ctx.rebuild_accounting_verif();
            ctx.register_response(net.ids[who], advertised);
            cover("c15x.find-node");
            for i in 0..N {
                check("c15x.candidates-after-reply", ctx.candidates.values().any(|p| p.peer_id_verif() == net.ids[i]) == expect_candidate(i));
                check("c15x.pending-after-reply", ctx.pending.contains_key(&net.ids[i]) == expect_pending(i));
                check("c15x.queried-after-reply", ctx.queried.contains(&net.ids[i]) == expect_queried(i));
            }
            // responses: the `replication` closest among the answered peers and the one that just answered
            let mut all: Vec<usize> = answered.iter().copied().filter(|i| answered.iter().position(|x| x == i).unwrap() < replication).collect();
            all.push(who);
            all.sort();
            all.truncate(replication);
            let got: Vec<PeerId> = ctx.responses.values().map(|p| p.peer_id_verif()).collect();
            let want: Vec<PeerId> = all.iter().map(|i| net.ids[*i]).collect();
            check("c15x.responses-are-the-closest-answered-peers", got == want);
        }
        1 => {
            let config = GetRecordConfig { local_peer_id: net.local, known_records: 0, quorum: Quorum::All, replication_factor: 3, parallelism_factor: 3,
                                           query: QueryId(1), target: Key::from_bytes_verif(key_bytes(0), rkey.clone()) };
            let mut ctx = GetRecordContext::new(config, candidates_in, false);
            for i in 0..N { match role[i] { 2 => { ctx.pending.insert(net.ids[i], net.peers[i].clone()); } 3 | 4 => { ctx.queried.insert(net.ids[i]); } _ => {} } }
            let with_record = nd.bool("with_record");
            let record = if with_record { Some(Record::new(rkey.clone(), vec![2u8])) } else { None };
            ctx.register_response(net.ids[who], record, advertised);
            cover("c15x.get-record");
            for i in 0..N {
                check("c15x.candidates-after-reply", ctx.candidates.values().any(|p| p.peer_id_verif() == net.ids[i]) == expect_candidate(i));
                check("c15x.pending-after-reply", ctx.pending.contains_key(&net.ids[i]) == expect_pending(i));
                check("c15x.queried-after-reply", ctx.queried.contains(&net.ids[i]) == expect_queried(i));
            }
            check("c15x.record-kept-once", ctx.found_records == if with_record { 1 } else { 0 } && ctx.records.len() == ctx.found_records);
        }
        _ => {
            let config = GetProvidersConfig { local_peer_id: net.local, parallelism_factor: 3, query: QueryId(2),
                                              target: Key::from_bytes_verif(key_bytes(0), rkey.clone()), known_providers: Vec::new() };
            let mut ctx = GetProvidersContext::new(config, candidates_in);
            for i in 0..N { match role[i] { 2 => { ctx.pending.insert(net.ids[i], net.peers[i].clone()); } 3 | 4 => { ctx.queried.insert(net.ids[i]); } _ => {} } }
            ctx.register_response(net.ids[who], Vec::new(), advertised);
            cover("c15x.get-providers");
            for i in 0..N {
                check("c15x.candidates-after-reply", ctx.candidates.values().any(|p| p.peer_id_verif() == net.ids[i]) == expect_candidate(i));
                check("c15x.pending-after-reply", ctx.pending.contains_key(&net.ids[i]) == expect_pending(i));
                check("c15x.queried-after-reply", ctx.queried.contains(&net.ids[i]) == expect_queried(i));
            }
        }
    }
}

// ------------------------------------------------------------------------------------------ C12 notification stream task
use litep2p::protocol::notification::verif_hooks as nk;

/// carrier of one notification substream: replays a scripted inbound byte stream and records what is written
pub struct WireIo { nd: *mut Nondet, incoming: Vec<u8>, pos: usize, eof_after: bool, out: *mut Vec<u8>, budget: *mut u64 }
unsafe impl Send for WireIo {}
impl VerifIo for WireIo {}
impl WireIo {
    fn scripted(&mut self) -> bool { let b = unsafe { &mut *self.budget }; if *b > 0 { *b -= 1; true } else { false } }
}
impl AsyncRead for WireIo {
    fn poll_read(mut self: Pin<&mut Self>, cx: &mut Context<'_>, buf: &mut ReadBuf<'_>) -> Poll<std::io::Result<()>> {
        let nd = unsafe { &mut *self.nd };
        let left = self.incoming.len() - self.pos;
        if left == 0 { return if self.eof_after { Poll::Ready(Ok(())) } else { Poll::Pending }; }
        let scripted = self.scripted();
        if scripted && nd.bool("read_pending") { { cx.waker().wake_by_ref(); return Poll::Pending; } }
        let room = buf.remaining();
        let avail = if left < room { left } else { room };
        if avail == 0 { return Poll::Ready(Ok(())); }
        let n = if scripted && nd.bool("read_one_byte") { 1 } else { avail };
        let pos = self.pos;
        buf.put_slice(&self.incoming[pos..pos + n]);
        self.pos += n;
        Poll::Ready(Ok(()))
    }
}
impl AsyncWrite for WireIo {
    fn poll_write(mut self: Pin<&mut Self>, cx: &mut Context<'_>, buf: &[u8]) -> Poll<std::io::Result<usize>> {
        let nd = unsafe { &mut *self.nd };
        if buf.is_empty() { return Poll::Ready(Ok(0)); }
        let scripted = self.scripted();
        if scripted && nd.bool("write_pending") { { cx.waker().wake_by_ref(); return Poll::Pending; } }
        let n = if scripted && nd.bool("write_one_byte") { 1 } else { buf.len() };
        unsafe { (*self.out).extend_from_slice(&buf[..n]); }
        Poll::Ready(Ok(n))
    }
    fn poll_flush(mut self: Pin<&mut Self>, cx: &mut Context<'_>) -> Poll<std::io::Result<()>> {
        let nd = unsafe { &mut *self.nd };
        if self.scripted() && nd.bool("flush_pending") { cx.waker().wake_by_ref(); Poll::Pending } else { Poll::Ready(Ok(())) }
    }
    fn poll_shutdown(self: Pin<&mut Self>, _cx: &mut Context<'_>) -> Poll<std::io::Result<()>> { Poll::Ready(Ok(())) }
}

/// frames (unsigned-varint length + payload) completely present in `wire`, and the incomplete tail
fn wire_frames(wire: &[u8]) -> (Vec<Vec<u8>>, Vec<u8>) {
    let mut frames = Vec::new();
    let mut i = 0usize;
    while i < wire.len() {
        let (len, used) = match unsigned_varint::decode::usize(&wire[i..]) {
            Ok((len, rest)) => (len, wire.len() - i - rest.len()),
            Err(_) => break,                       // the length prefix itself is incomplete
        };
        if i + used + len > wire.len() { break; }
        frames.push(wire[i + used..i + used + len].to_vec());
        i += used + len;
    }
    (frames, wire[i..].to_vec())
}

/// length prefix + payload as they should appear on the wire
fn framed(payload: &[u8]) -> Vec<u8> {
    let mut buf = unsigned_varint::encode::usize_buffer();
    let mut out = unsigned_varint::encode::usize(payload.len(), &mut buf).to_vec();
    out.extend_from_slice(payload);
    out
}

/// C12: the per-stream notification task (`notification::Connection::start`, its `poll_next`, the user-side
/// `NotificationSink`) between two real substreams over scripted carriers. Everything accepted for sending reaches
/// the wire once, in order; everything the remote sent within the size limit reaches the user once, in order; a
/// closed stream delivers a prefix; the synchronous send never waits; the asynchronous one waits only for capacity.
pub fn c12_notification_stream(nd: &mut Nondet) {
    // `big`: notifications above the substream's back-pressure boundary (the sink refuses new items while it flushes)
    let big = param("big", 0) == 1;
    let max_size: usize = if big { 100000 } else { 3 };
    const MAX: usize = 3;
    let big_data = if big { nd.pattern(4 * 70001) } else { Vec::new() };
    let peer = nd.peer_id_fixed(1);
    let async_mode = nd.bool("async_mode");
    // the queue of the sending mode in use has 1 or 2 slots (the other queue stays empty)
    let capacity = 1 + nd.choose("send_capacity", 2) as usize;
    let (sync_cap, async_cap) = (capacity, capacity);
    let notif_cap = if big { 1 } else { 1 + nd.choose("user_capacity", 2) as usize };
    // what the remote sends: up to two frames, optionally followed by one that exceeds the maximum
    let n_in = if big { 0 } else { 2 * nd.choose("inbound_frames", 2) as usize };
    let oversized = if big { false } else { nd.bool("inbound_oversized") };
    let remote_closes = if big { false } else { nd.bool("remote_closes") };
    let mut expected_in: Vec<Vec<u8>> = Vec::new();
    let mut incoming: Vec<u8> = Vec::new();
    for i in 0..n_in {
        let payload = if i == 0 { vec![0xA0u8] } else { vec![0xA1u8, 0xA2] };
        incoming.push(payload.len() as u8);
        incoming.extend_from_slice(&payload);
        expected_in.push(payload);
    }
    if oversized { incoming.push((MAX + 1) as u8); incoming.extend_from_slice(&[0xEE; MAX + 1]); }
    let mut wire: Vec<u8> = Vec::new();
    let mut sink_hole: Vec<u8> = Vec::new();
    let mut write_budget = param("write_budget", 2);
    let mut read_budget = param("read_budget", 1);
    let ndp = nd as *mut Nondet;
    let inbound = Substream::new_verif(peer, SubstreamId::from(0usize),
        Box::new(WireIo { nd: ndp, incoming, pos: 0, eof_after: remote_closes, out: &mut sink_hole as *mut Vec<u8>, budget: &mut read_budget as *mut u64 }),
        ProtocolCodec::UnsignedVarint(Some(max_size)));
    let outbound = Substream::new_verif(peer, SubstreamId::from(1usize),
        Box::new(WireIo { nd: ndp, incoming: Vec::new(), pos: 0, eof_after: false, out: &mut wire as *mut Vec<u8>, budget: &mut write_budget as *mut u64 }),
        ProtocolCodec::UnsignedVarint(Some(max_size)));
    let (mut kernel, sink) = nk::new_kernel(peer, inbound, outbound, sync_cap, async_cap, notif_cap);
    let waker = noop_waker();
    let mut cx = Context::from_waker(&waker);

    let mut accepted: Vec<Vec<u8>> = Vec::new();
    let mut received: Vec<Vec<u8>> = Vec::new();
    let mut waiting: Option<(Pin<Box<dyn Future<Output = litep2p::Result<()>>>>, Vec<u8>)> = None;
    let mut next_tag = 1u8;
    let mut shutdown_requested = false;
    let mut closed_events = 0usize;
    let steps = param("steps", 5);
    let total = steps + 12;                      // the tail runs the task and the reader without further commands
    for step in 0..total {
        let tail = step >= steps;
        let action = if tail { if step % 2 == 0 { 1 } else { 2 } } else { nd.choose("action", 4) };
        match action {
            0 => {
                // the user sends the next notification (1 or 2 bytes, tagged with its sequence number)
                if waiting.is_some() { assume(false); }
                let payload = if big {
                    let k = (next_tag - 1) as usize;
                    if k >= 4 { assume(false); }
                    big_data[k * 70001..k * 70001 + 70000 + k % 2].to_vec()
                } else if nd.bool("two_bytes") { vec![next_tag, next_tag] } else { vec![next_tag] };
                next_tag += 1;
                if async_mode {
                    let s = sink.clone();
                    let p = payload.clone();
                    let mut fut: Pin<Box<dyn Future<Output = litep2p::Result<()>>>> = Box::pin(async move { s.send_async_notification(p).await });
                    match fut.as_mut().poll(&mut cx) {
                        Poll::Ready(Ok(())) => { cover("c12.async.accepted"); accepted.push(payload); }
                        Poll::Ready(Err(_)) => { cover("c12.async.refused"); check("c12.send-is-refused-only-on-a-closed-stream", kernel.finished()); }
                        Poll::Pending => {
                            cover("c12.async.waits");
                            let (on_wire, _) = wire_frames(&wire);
                            check("c12.async-send-waits-only-for-capacity", accepted.len() - on_wire.len() >= async_cap);
                            waiting = Some((fut, payload));
                        }
                    }
                } else {
                    match sink.send_sync_notification(payload.clone()) {
                        Ok(()) => { cover("c12.sync.accepted"); accepted.push(payload); }
                        Err(litep2p::protocol::notification::NotificationError::ChannelClogged) => {
                            cover("c12.sync.clogged");
                            let (on_wire, _) = wire_frames(&wire);
                            check("c12.sync-send-reports-clogged-only-when-the-queue-is-full", accepted.len() - on_wire.len() >= sync_cap);
                        }
                        Err(_) => { cover("c12.sync.refused"); check("c12.send-is-refused-only-on-a-closed-stream", kernel.finished()); }
                    }
                }
            }
            1 => {
                // the executor polls the stream task; a waiting asynchronous send is polled after it
                if !kernel.finished() { if kernel.poll_task(&mut cx) { cover("c12.task-finished"); } }
                if let Some((mut fut, payload)) = waiting.take() {
                    match fut.as_mut().poll(&mut cx) {
                        Poll::Ready(Ok(())) => { cover("c12.async.accepted-after-waiting"); accepted.push(payload); }
                        Poll::Ready(Err(_)) => { check("c12.send-is-refused-only-on-a-closed-stream", kernel.finished()); }
                        Poll::Pending => { waiting = Some((fut, payload)); }
                    }
                }
            }
            2 => {
                // the user reads one notification
                if let Some((from, bytes)) = kernel.user_receive() {
                    cover("c12.user.received");
                    check("c12.notification-names-the-peer", from == peer);
                    check("c12.inbound-in-order-without-loss-or-duplicate", received.len() < expected_in.len() && bytes == expected_in[received.len()]);
                    check("c12.oversized-notification-is-never-delivered", bytes.len() <= MAX);
                    received.push(bytes);
                }
            }
            _ => {
                // the protocol shuts the stream down
                if shutdown_requested { assume(false); }
                shutdown_requested = true;
                kernel.request_shutdown();
                cover("c12.shutdown-requested");
            }
        }
        // ---- the wire is always a prefix of what was accepted: in order, nothing skipped, nothing twice
        let (on_wire, partial) = wire_frames(&wire);
        check("c12.wire-carries-at-most-what-was-accepted", on_wire.len() <= accepted.len());
        for k in 0..on_wire.len() { check("c12.outbound-in-order-without-loss-or-duplicate", on_wire[k] == accepted[k]); }
        if !partial.is_empty() {
            let ok = on_wire.len() < accepted.len() && {
                let full = framed(&accepted[on_wire.len()]);
                partial.len() < full.len() && partial[..] == full[..partial.len()]
            };
            check("c12.partial-frame-belongs-to-the-next-accepted-notification", ok);
        }
        if let Some(p) = kernel.user_closed_event() { check("c12.closed-event-names-the-peer", p == peer); closed_events += 1; }
        check("c12.closed-is-reported-once", closed_events <= 1);
        if closed_events == 1 { check("c12.closed-is-reported-by-the-finished-task", kernel.finished()); }
    }
    // ---- after the quiet tail
    let (on_wire, partial) = wire_frames(&wire);
    if kernel.finished() {
        cover("c12.closed");
        check("c12.finished-task-told-the-user", closed_events == 1);
        let reason = shutdown_requested || remote_closes || oversized;
        check("c12.stream-closes-only-for-a-reason", reason);
    } else {
        cover("c12.open");
        check("c12.nothing-accepted-is-withheld-on-an-open-stream", on_wire.len() == accepted.len() && partial.is_empty() && waiting.is_none());
        check("c12.everything-sent-within-the-limit-is-delivered", received.len() == expected_in.len());
        check("c12.a-remote-close-or-an-oversized-frame-ends-the-stream", !(remote_closes || oversized));
    }

}

// ------------------------------------------------------------------------------------------ C16/C04 request futures of the Kademlia executor
use litep2p::protocol::libp2p::kademlia::executor::{QueryExecutor, QueryResult};

/// C16 (send phase) + C04 (`send_framed` path): the futures the Kademlia executor runs for one request over a real
/// Substream. A send is reported (or assumed) successful only if the complete framed request reached the carrier; a
/// carrier failure is reported as a send failure; a reply is handed over unchanged.
pub fn c16_executor_request(nd: &mut Nondet) {
    let peer = nd.peer_id_fixed(1);
    // the remote: stays idle, closes, or replies with one frame
    let remote = nd.choose("remote", 3);
    let reply: Vec<u8> = vec![0xB1, 0xB2];
    let incoming: Vec<u8> = if remote == 2 { let mut v = vec![reply.len() as u8]; v.extend_from_slice(&reply); v } else { Vec::new() };
    // the carrier: healthy, or failing at the 1st / 2nd / 3rd write call
    let fail_at = nd.choose("carrier_fails_at_write", 4) as usize;
    let mut wire: Vec<u8> = Vec::new();
    let mut io = ScriptedIo::new(nd, incoming).with_sink(&mut wire as *mut Vec<u8>);
    io.idle_at_end = remote == 0;
    io.fail_write_at = if fail_at == 0 { None } else { Some(fail_at) };
    let sub = Substream::new_verif(peer, SubstreamId::from(0usize), Box::new(io), ProtocolCodec::UnsignedVarint(None));
    let request: Vec<u8> = vec![0x61, 0x62, 0x63];
    let message = Bytes::from(request.clone());
    let mut executor = QueryExecutor::new();
    let operation = nd.choose("operation", 3);
    match operation {
        0 => executor.send_message(peer, Some(QueryId(7)), message, sub),
        1 => executor.send_request_read_response(peer, Some(QueryId(7)), message, sub),
        _ => executor.send_request_eat_response_failure(peer, Some(QueryId(7)), message, sub),
    }
    let waker = noop_waker();
    let mut cx = Context::from_waker(&waker);
    let mut outcome = None;
    let mut polls = 0;
    while polls < 10 {
        polls += 1;
        match Pin::new(&mut executor).poll_next(&mut cx) {
            Poll::Ready(Some(context)) => { outcome = Some(context); break; }
            Poll::Ready(None) => { check("c16x.executor-keeps-the-request-until-it-has-an-outcome", false); return; }
            Poll::Pending => { cover("c16x.pending"); }
        }
    }
    let sent = wire == framed(&request);
    check("c16x.the-carrier-holds-a-prefix-of-the-framed-request", { let full = framed(&request); wire.len() <= full.len() && wire[..] == full[..wire.len()] });
    match outcome {
        None => {
            // no timer fires within the explored window: only a request waiting for an idle remote may still be pending
            cover("c16x.waiting");
            check("c16x.only-a-read-from-an-idle-remote-stays-pending", remote == 0 && operation >= 1 && sent);
        }
        Some(context) => {
            check("c16x.outcome-names-the-peer-and-the-query", context.peer == peer && context.query_id == Some(QueryId(7)));
            match context.result {
                QueryResult::SendSuccess { .. } => { cover("c16x.send-success"); check("c16x.success-only-after-the-whole-request-was-written", sent && operation == 0); }
                QueryResult::AssumeSendSuccess => { cover("c16x.assumed-success"); check("c16x.assumed-success-only-after-the-whole-request-was-written", sent && operation == 2); }
                QueryResult::ReadSuccess { message, .. } => {
                    cover("c16x.read-success");
                    check("c16x.reply-only-after-the-whole-request-was-written", sent && operation >= 1);
                    check("c16x.reply-is-what-the-remote-sent", remote == 2 && message[..] == reply[..]);
                }
                QueryResult::SendFailure { .. } => { cover("c16x.send-failure"); check("c16x.send-failure-only-when-the-carrier-failed", fail_at != 0 && !sent); }
                QueryResult::ReadFailure { .. } => { cover("c16x.read-failure"); check("c16x.read-failure-only-after-the-request-was-written-and-no-reply-came", sent && operation == 1 && remote != 2); }
            }
        }
    }
    if fail_at == 0 { check("c16x.healthy-carrier-gets-the-whole-request", sent); }
}

// ------------------------------------------------------------------------------------------ C20 at message level (prost framing included)
use litep2p::protocol::libp2p::bitswap::verif_hooks_message as bsm;
use litep2p::protocol::libp2p::bitswap::{BlockPresenceType, ResponseType};

fn pb_bytes_field(out: &mut Vec<u8>, tag: u64, data: &[u8]) {
    push_varint(out, (tag << 3) | 2);
    push_varint(out, data.len() as u64);
    out.extend_from_slice(data);
}
fn pb_varint_field(out: &mut Vec<u8>, tag: u64, value: u64) {
    push_varint(out, tag << 3);
    push_varint(out, value);
}
/// (field number, wire type, payload bytes or varint value) of every top-level field of a protobuf message
fn pb_fields(mut data: &[u8]) -> Option<Vec<(u64, Vec<u8>, u64)>> {
    let mut out = Vec::new();
    while !data.is_empty() {
        let (key, rest) = unsigned_varint::decode::u64(data).ok()?;
        match key & 7 {
            0 => { let (v, rest) = unsigned_varint::decode::u64(rest).ok()?; out.push((key >> 3, Vec::new(), v)); data = rest; }
            2 => {
                let (len, rest) = unsigned_varint::decode::usize(rest).ok()?;
                if rest.len() < len { return None; }
                out.push((key >> 3, rest[..len].to_vec(), 0));
                data = &rest[len..];
            }
            _ => return None,
        }
    }
    Some(out)
}

fn sha256_cid(codec: u64, data: &[u8]) -> cid::Cid {
    let mh = Code::Sha2_256.digest(data);
    cid::Cid::new_v1(codec, cid::multihash::Multihash::<64>::wrap(mh.code(), mh.digest()).expect("fits"))
}

/// C20 (receive side, whole message): every block reported to the user carries the CID recomputed from *its own*
/// data, acceptable blocks are all reported, in message order, whatever unacceptable blocks sit between them.
pub fn c20_message_received(nd: &mut Nondet) {
    let mut manager = TransportManagerBuilder::new().build();
    let mut kernel = bsm::new_kernel(&mut manager);
    let peer = nd.peer_id_fixed(1);
    let n = 1 + nd.choose("blocks", 3) as usize;
    let mut message: Vec<u8> = Vec::new();
    let mut expected: Vec<(cid::Cid, Vec<u8>)> = Vec::new();
    for i in 0..n {
        let data: Vec<u8> = (0..i + 1).map(|k| 0x30 + (i * 4 + k) as u8).collect();
        let mut prefix = Vec::new();
        match nd.choose("block_kind", 4) {
            0 => { for v in [1u64, 0x55, 0x12, 32] { push_varint(&mut prefix, v); } expected.push((sha256_cid(0x55, &data), data.clone())); }
            1 => { for v in [1u64, 0x70, 0x12, 32] { push_varint(&mut prefix, v); } expected.push((sha256_cid(0x70, &data), data.clone())); }
            2 => { for v in [1u64, 0x55, 0x11, 20] { push_varint(&mut prefix, v); } }      // sha1: not a compiled-in hash
            _ => { prefix.push(0xff); }                                                    // garbage
        }
        let mut block = Vec::new();
        pb_bytes_field(&mut block, 1, &prefix);
        pb_bytes_field(&mut block, 2, &data);
        pb_bytes_field(&mut message, 3, &block);
    }
    let presence_cid = sha256_cid(0x55, &[9u8]);
    let with_presence = nd.bool("with_presence");
    if with_presence {
        let mut presence = Vec::new();
        pb_bytes_field(&mut presence, 1, &presence_cid.to_bytes());
        pb_varint_field(&mut presence, 2, 1);
        pb_bytes_field(&mut message, 4, &presence);
    }
    match bsm::message_received(&mut kernel, peer, &message) {
        None => { check("c20m.handler-does-not-suspend", false); return; }
        Some(ok) => check("c20m.wellformed-message-is-handled", ok),
    }
    let mut blocks: Vec<(cid::Cid, Vec<u8>)> = Vec::new();
    let mut presences = 0usize;
    while let Some((from, responses)) = bsm::next_response(&mut kernel) {
        check("c20m.response-names-the-sender", from == peer);
        for entry in responses {
            match entry {
                ResponseType::Block { cid, block } => blocks.push((cid, block)),
                ResponseType::Presence { cid, presence } => {
                    presences += 1;
                    check("c20m.presence-is-what-was-sent", cid == presence_cid && matches!(presence, BlockPresenceType::DontHave));
                }
            }
        }
    }
    for (cid, block) in blocks.iter() {
        check("c20m.reported-cid-is-recomputed-from-the-reported-data", *cid == sha256_cid(cid.codec(), block));
    }
    check("c20m.every-acceptable-block-is-reported-once-in-order", blocks == expected);
    check("c20m.presences-are-reported", presences == if with_presence { 1 } else { 0 });
    if expected.is_empty() { cover("c20m.nothing-acceptable"); } else { cover("c20m.blocks-reported"); }
    if expected.len() < n { cover("c20m.some-block-dropped"); }
}

/// C20 (send side, whole response): what `send_response` puts on the wire carries every block exactly once, in the
/// order given, each with the prefix of its own CID, and every presence once - however presences and blocks are mixed.
pub fn c20_send_response(nd: &mut Nondet) {
    let peer = nd.peer_id_fixed(1);
    let mut wire: Vec<u8> = Vec::new();
    let io = ScriptedIo::new(nd, Vec::new()).with_sink(&mut wire as *mut Vec<u8>);
    let mut sub = Substream::new_verif(peer, SubstreamId::from(0usize), Box::new(io), ProtocolCodec::UnsignedVarint(Some(4 * 1024 * 1024)));
    let n = 1 + nd.choose("entries", 4) as usize;
    let mut entries: Vec<ResponseType> = Vec::new();
    let mut blocks: Vec<(cid::Cid, Vec<u8>)> = Vec::new();
    let mut presences: Vec<cid::Cid> = Vec::new();
    for i in 0..n {
        let data: Vec<u8> = (0..i + 1).map(|k| 0x40 + (i * 5 + k) as u8).collect();
        let cid = sha256_cid(if i % 2 == 0 { 0x55 } else { 0x70 }, &data);
        if nd.bool("is_presence") {
            entries.push(ResponseType::Presence { cid, presence: BlockPresenceType::Have });
            presences.push(cid);
        } else {
            entries.push(ResponseType::Block { cid, block: data.clone() });
            blocks.push((cid, data));
        }
    }
    match bsm::send_response_now(&mut sub, entries) {
        None => { cover("c20s.suspended"); return; }       // a scripted Pending of the carrier: the caller polls again
        Some(ok) => check("c20s.healthy-carrier-send-succeeds", ok),
    }
    // parse the wire: length-delimited frames, each a bitswap Message
    let (frames, partial) = wire_frames(&wire);
    check("c20s.only-whole-messages-on-the-wire", partial.is_empty());
    let mut sent_blocks: Vec<(Vec<u8>, Vec<u8>)> = Vec::new();       // (prefix, data)
    let mut sent_presences: Vec<Vec<u8>> = Vec::new();
    for frame in frames.iter() {
        let fields = match pb_fields(frame) { Some(f) => f, None => { check("c20s.frames-are-protobuf-messages", false); return; } };
        for (tag, payload, _) in fields {
            if tag == 3 {
                let inner = match pb_fields(&payload) { Some(f) => f, None => { check("c20s.blocks-are-protobuf-messages", false); return; } };
                let mut prefix = Vec::new();
                let mut data = Vec::new();
                for (t, p, _) in inner { if t == 1 { prefix = p; } else if t == 2 { data = p; } }
                sent_blocks.push((prefix, data));
            } else if tag == 4 {
                let inner = match pb_fields(&payload) { Some(f) => f, None => { check("c20s.presences-are-protobuf-messages", false); return; } };
                for (t, p, _) in inner { if t == 1 { sent_presences.push(p); } }
            }
        }
    }
    check("c20s.every-block-sent-exactly-once", sent_blocks.len() == blocks.len());
    for k in 0..sent_blocks.len().min(blocks.len()) {
        let (cid, data) = &blocks[k];
        check("c20s.blocks-go-out-in-the-order-given", sent_blocks[k].1 == *data);
        let mut prefix = Vec::new();
        for v in [1u64, cid.codec(), 0x12, 32] { push_varint(&mut prefix, v); }
        check("c20s.block-carries-the-prefix-of-its-own-cid", sent_blocks[k].0 == prefix);
    }
    check("c20s.every-presence-sent-exactly-once", sent_presences.len() == presences.len());
    for k in 0..sent_presences.len().min(presences.len()) {
        check("c20s.presences-go-out-in-the-order-given", sent_presences[k] == presences[k].to_bytes());
    }
    if !blocks.is_empty() && !presences.is_empty() { cover("c20s.mixed"); }
    cover("c20s.sent");
}

// ------------------------------------------------------------------------------------------ C13 requests with an open substream
/// C13 (requests in flight): requests whose substream was opened run as futures (write the request, wait for the
/// response, a cancel or the timer); connection loss, cancellation, carrier failures, replies and remote closes may
/// arrive in any order. Every accepted request gets at most one outcome, and an outcome only for a reason.
pub fn c13_request_flight(nd: &mut Nondet) {
    let mut manager = TransportManagerBuilder::new().build();
    hooks::register_scripted_tcp(&mut manager, Box::new(move |_call: TransportCall| true));
    let peer = nd.peer_id_fixed(1);
    hooks::add_address(&mut manager, peer, peer_address(0, peer), 0);
    let mut kernel = rr::new_kernel(&mut manager, None);
    let mut connection: Option<ConnectionId> = Some(ConnectionId::from(0usize));
    check("c13f.connection-is-handled", rr::connection_established(&mut kernel, peer, ConnectionId::from(0usize)));
    let mut next_connection = 1usize;
    let mut accepted: Vec<RequestId> = Vec::new();
    for _ in 0..2 {
        match rr::send_request(&mut kernel, peer, false) { Some(id) => accepted.push(id), None => { check("c13f.connected-peer-accepts-requests", false); return; } }
    }
    let mut settled: Vec<RequestId> = Vec::new();
    let mut cancelled: Vec<RequestId> = Vec::new();
    let mut opened = 0usize;
    let mut replies = 0usize;          // substreams whose remote answers
    let mut failures_expected = 0usize; // substreams whose carrier fails or whose remote closes
    let steps = param("steps", 4);
    for _ in 0..steps {
        match nd.choose("event", 5) {
            0 => {
                // the connection task opened the next requested substream; the remote behind it replies, stays idle or closes,
                // the carrier may fail while the request is written
                let remote = nd.choose("remote", 3);
                let fail_at = nd.choose("carrier_fails_at_write", 3) as usize;
                let incoming: Vec<u8> = if remote == 2 { vec![2, 0xC1, 0xC2] } else { Vec::new() };
                let mut io = ScriptedIo::new(nd, incoming);
                io.idle_at_end = remote == 0;
                io.fail_write_at = if fail_at == 0 { None } else { Some(fail_at) };
                let substream = Substream::new_verif(peer, SubstreamId::from(100 + opened), Box::new(io), ProtocolCodec::UnsignedVarint(Some(1024)));
                match rr::substream_opened(&mut kernel, peer, substream) {
                    None => assume(false),
                    Some(ok) => { check("c13f.opened-substream-is-handled", ok); opened += 1; cover("c13f.opened"); }
                }
                if fail_at != 0 || remote == 1 { failures_expected += 1; } else if remote == 2 { replies += 1; }
            }
            1 => {
                let handled = rr::poll_requests(&mut kernel);
                if handled > 0 { cover("c13f.request-future-finished"); }
            }
            2 => {
                match connection.take() { Some(id) => { rr::connection_closed(&mut kernel, peer, id); cover("c13f.disconnected"); } None => assume(false) }
            }
            3 => {
                if connection.is_some() { assume(false); }
                let id = ConnectionId::from(next_connection);
                next_connection += 1;
                check("c13f.connection-is-handled", rr::connection_established(&mut kernel, peer, id));
                connection = Some(id);
                cover("c13f.reconnected");
            }
            _ => {
                // the user cancels one of its requests (only while no reply is on its way: the request future picks one of
                // several ready branches at random, which a replay could not reproduce)
                if replies > 0 { assume(false); }
                let k = nd.choose("cancel_which", 2) as usize;
                if cancelled.contains(&accepted[k]) { assume(false); }
                rr::cancel_request(&mut kernel, accepted[k]);
                cancelled.push(accepted[k]);
                cover("c13f.cancel");
            }
        }
        for outcome in rr::drain_outcomes(&mut kernel) {
            match outcome {
                rr::Outcome::Failed(id) => {
                    cover("c13f.failed");
                    check("c13f.outcome-belongs-to-an-accepted-request", accepted.contains(&id));
                    check("c13f.at-most-one-terminal-outcome-per-request", !settled.contains(&id));
                    settled.push(id);
                }
                rr::Outcome::Response(id) => {
                    cover("c13f.response");
                    check("c13f.outcome-belongs-to-an-accepted-request", accepted.contains(&id));
                    check("c13f.at-most-one-terminal-outcome-per-request", !settled.contains(&id));
                    check("c13f.response-only-if-a-remote-replied", replies > 0);
                    settled.push(id);
                }
                rr::Outcome::Inbound(_) => check("c13f.no-inbound-request-in-this-scenario", false),
            }
        }
        for id in accepted.iter() {
            let (in_dials, in_outbound, active) = rr::tracked(&kernel, *id);
            if settled.contains(id) {
                check("c13f.settled-request-is-forgotten", !in_dials && !in_outbound && !active);
            } else if cancelled.contains(id) && !(in_dials || in_outbound || active) {
                // a request the user cancelled ends without an event (the user's handle already dropped it): that is its outcome
                cover("c13f.cancelled-silently");
                settled.push(*id);
            } else {
                check("c13f.unsettled-request-is-still-tracked", in_dials || in_outbound || active);
            }
        }
        let _ = failures_expected;
    }
}

// ------------------------------------------------------------------------------------------ C19 Kademlia messages
use litep2p::protocol::libp2p::kademlia::message::KademliaMessage;

/// C19 (Kademlia messages): what the library's own encoders produce decodes to what was encoded, and every truncation
/// and single-byte damage of such an encoding is answered with a value or `None`, never a panic.
pub fn c19_kademlia_message(nd: &mut Nondet) {
    let kind = nd.choose("message", 6);
    let key = vec![7u8, 8, 9];
    let rkey = RecordKey::from(key.clone());
    let value = vec![1u8, 2];
    let publisher = if nd.bool("has_publisher") { Some(nd.peer_id_fixed(5)) } else { None };
    let mut record = Record::new(rkey.clone(), value.clone());
    record.publisher = publisher;
    let closer = KademliaPeer::new_verif(nd.peer_id_fixed(2), key_bytes(1), ConnectionType::NotConnected);
    let encoded: Vec<u8> = match kind {
        0 => KademliaMessage::find_node(key.clone()).to_vec(),
        1 => KademliaMessage::put_value(record.clone()).to_vec(),
        2 => KademliaMessage::get_record(rkey.clone()).to_vec(),
        3 => KademliaMessage::find_node_response(&key, vec![closer.clone()]),
        4 => KademliaMessage::get_providers_request(rkey.clone()).to_vec(),
        _ => KademliaMessage::put_value_response(rkey.clone(), value.clone()).to_vec(),
    };
    check("c19k.encoders-produce-something", !encoded.is_empty());
    let damage = nd.choose("damage", 3);
    let mut bytes = encoded.clone();
    match damage {
        1 => { let at = nd.choose("cut_at", encoded.len() as u64) as usize; bytes.truncate(at); }
        2 => {
            let at = nd.choose("flip_at", encoded.len() as u64) as usize;
            let mask = match nd.choose("mask", 3) { 0 => 0x01u8, 1 => 0x80, _ => 0xff };
            bytes[at] ^= mask;
        }
        _ => {}
    }
    let decoded = KademliaMessage::from_bytes(BytesMut::from(&bytes[..]), 20);
    if damage != 0 {
        if decoded.is_some() { cover("c19k.damaged.accepted"); } else { cover("c19k.damaged.rejected"); }
        return;
    }
    cover("c19k.roundtrip");
    match (kind, decoded) {
        (0, Some(KademliaMessage::FindNode { target, peers })) => check("c19k.find-node-roundtrip", target == key && peers.is_empty()),
        (1, Some(KademliaMessage::PutValue { record: r })) | (5, Some(KademliaMessage::PutValue { record: r })) => {
            check("c19k.record-roundtrip", r.key == rkey && r.value == value && r.expires.is_none());
            check("c19k.record-publisher-roundtrip", r.publisher == if kind == 1 { publisher } else { None });
        }
        (2, Some(KademliaMessage::GetRecord { key: k, record: r, peers })) => check("c19k.get-record-roundtrip", k == Some(rkey.clone()) && r.is_none() && peers.is_empty()),
        (3, Some(KademliaMessage::FindNode { target, peers })) => {
            // a peer without any address is not handed on by the decoder or is handed on with its id: both keep the target
            check("c19k.find-node-response-roundtrip", target == key && peers.len() <= 1);
            if peers.len() == 1 { check("c19k.closer-peer-id-roundtrip", peers[0].peer_id_verif() == closer.peer_id_verif()); }
        }
        (4, Some(KademliaMessage::GetProviders { key: k, peers, providers })) => check("c19k.get-providers-roundtrip", k == Some(rkey.clone()) && peers.is_empty() && providers.is_empty()),
        _ => check("c19k.own-encoding-decodes-to-the-same-kind", false),
    }
}

// ------------------------------------------------------------------------------------------ C11 notification protocol of one endpoint
use litep2p::protocol::notification::{NotificationEvent, ValidationResult};

/// C11: the real `NotificationProtocol::next_event()` loop with the real `NotificationHandle` on the user's side, a
/// transport fed by the harness and remotes scripted through their substreams. The user-visible event grammar per
/// peer is checked after every step: opened/closed alternate, no open-failure while open, notifications only while
/// open, an inbound stream opens only after acceptance, answers never outnumber requests, and a lost connection ends
/// an open stream.
pub fn c11_notification_protocol(nd: &mut Nondet) {
    let mut manager = TransportManagerBuilder::new().build();
    let auto_accept = nd.bool("auto_accept");
    let (mut kernel, mut handle) = nk::new_protocol_kernel(&mut manager, auto_accept, vec![0xAA]);
    let peer = nd.peer_id_fixed(1);
    let waker = noop_waker();
    let mut cx = Context::from_waker(&waker);
    let mut connection: Option<ConnectionId> = None;
    let mut next_connection = 0usize;
    let mut next_substream = 0usize;

    let mut open = false;                 // as the user sees it
    let mut requests = 0usize;            // open requests the user made
    let mut answers = 0usize;             // outbound opens + open failures the user saw
    let mut accepts = 0usize;             // validations the user answered with Accept
    let mut clean_requests = 0usize;      // requests made while the peer was not connected, or connected with nothing in progress
    let mut outcomes = 0usize;            // open failures + streams opened (either direction)
    let mut validation_pending = false;   // the user was asked to validate and has not answered
    let mut accepted = false;             // the user accepted the current inbound substream
    let mut requested_since_closed = false;
    let mut closing = false;              // the user asked to close the open stream and has not yet seen the closed event
    let mut lost = false;                 // the connection of the open stream went away and the closed event has not arrived yet
    let mut poll_old_task = false;

    let steps = param("steps", 4);
    // `warm` leading steps are fixed: connect, the user asks for a stream, the remote answers our handshake, the remote opens
    // its own substream and handshakes (histories that start from a stream that is open or about to open)
    let warm = param("warm", 0);
    // (a longer prefix continues: the user closes the stream, the remote opens a new substream and handshakes, the user accepts
    // it, the protocol's own substream is negotiated - all before the old stream's task has run)
    const WARM: [u64; 8] = [0, 2, 4, 5, 3, 5, 6, 4];
    let total = warm + steps + 2;         // the last two steps settle: the connection is lost, then everything is polled
    for step in 0..total {
        let forced = step < warm;
        let settle = step >= warm + steps;
        if step == warm + steps && connection.is_some() && param("probe", 1) == 1 {
            // ---- before the connection is lost: everything the connection still owes is answered (the substream requests
            // fail), and then the peer must be usable - a request to a connected peer with nothing in progress is acted upon:
            // the protocol asks the connection for a substream or answers at once
            while let Some((_, sid)) = kernel.next_open_request() { let _ = kernel.outbound_substream_failed(sid); }
            let mut rounds = 0;
            while kernel.poll_protocol(&mut cx) == nk::Polled::Handled { rounds += 1; if rounds > 12 { check("c11.protocol-quiesces", false); return; } }
            let mut sane = true;
            loop {
                match Pin::new(&mut handle).poll_next(&mut cx) {
                    Poll::Ready(Some(NotificationEvent::NotificationStreamClosed { .. })) => { check("c11.opened-and-closed-alternate", open); open = false; closing = false; lost = false; accepted = false; requested_since_closed = false; }
                    Poll::Ready(Some(NotificationEvent::NotificationStreamOpened { .. })) => { sane = false; }
                    Poll::Ready(Some(NotificationEvent::ValidateSubstream { .. })) => { validation_pending = true; }
                    Poll::Ready(Some(NotificationEvent::NotificationStreamOpenFailure { .. })) => { check("c11.no-open-failure-while-the-stream-is-open", !open || closing || lost); answers += 1; outcomes += 1; }
                    Poll::Ready(Some(NotificationEvent::NotificationReceived { .. })) => { check("c11.notifications-only-while-open", open); }
                    Poll::Ready(Some(_)) => {}
                    _ => break,
                }
            }
            if sane && kernel.peer_is_idle(&peer) && !open {
                // nothing is in progress any more: every request that was made while nothing was in progress has its answer
                check("c11.request-on-an-idle-peer-is-answered", outcomes >= clean_requests);
                let mut fut = Box::pin(handle.open_substream(peer));
                let asked = matches!(fut.as_mut().poll(&mut cx), Poll::Ready(Ok(())));
                drop(fut);
                if asked {
                    cover("c11.probe");
                    requests += 1;
                    requested_since_closed = true;
                    let mut rounds = 0;
                    while kernel.poll_protocol(&mut cx) == nk::Polled::Handled { rounds += 1; if rounds > 12 { check("c11.protocol-quiesces", false); return; } }
                    let mut answered = false;
                    loop {
                        match Pin::new(&mut handle).poll_next(&mut cx) {
                            Poll::Ready(Some(NotificationEvent::NotificationStreamOpenFailure { .. })) => { answered = true; answers += 1; }
                            Poll::Ready(Some(_)) => {}
                            _ => break,
                        }
                    }
                    let requested = kernel.next_open_request().is_some();
                    check("c11.request-on-an-idle-connected-peer-is-acted-upon", answered || requested);
                }
            }
        }
        let event = if forced { WARM[step as usize] } else if settle { if step == warm + steps { 1 } else { 7 } } else { nd.choose("event", 8) };
        match event {
            0 => {
                if connection.is_some() { assume(false); }
                let id = ConnectionId::from(next_connection);
                next_connection += 1;
                check("c11.transport-event-is-queued", kernel.connection_established(peer, id));
                connection = Some(id);
                cover("c11.connected");
            }
            1 => {
                match connection.take() {
                    Some(id) => { check("c11.transport-event-is-queued", kernel.connection_closed(peer, id)); if open { lost = true; } cover("c11.disconnected"); }
                    None => { if !settle { assume(false); } }
                }
            }
            2 => {
                // the user asks for a stream
                let mut fut = Box::pin(handle.open_substream(peer));
                match fut.as_mut().poll(&mut cx) {
                    Poll::Ready(Ok(())) => {
                        requests += 1;
                        requested_since_closed = true;
                        if connection.is_none() || (kernel.peer_is_idle(&peer) && !open) { clean_requests += 1; }
                        cover("c11.user.open");
                    }
                    Poll::Ready(Err(_)) => { cover("c11.user.open-refused"); check("c11.open-is-refused-locally-only-while-open", open); }
                    Poll::Pending => { check("c11.command-channel-has-room", false); return; }
                }
            }
            3 => {
                let mut fut = Box::pin(handle.close_substream(peer));
                match fut.as_mut().poll(&mut cx) { Poll::Ready(()) => { cover("c11.user.close"); if open { closing = true; } } Poll::Pending => { check("c11.command-channel-has-room", false); return; } }
                drop(fut);
                // in the forced prefix the old stream's task may or may not get to run before the remote comes back
                if forced && !nd.bool("old_task_is_starved") { poll_old_task = true; }
            }
            4 => {
                // the connection task answers the protocol's oldest substream request
                match kernel.next_open_request() {
                    None => assume(false),
                    Some((conn, sid)) => {
                        match if forced { 1 } else { nd.choose("outbound", 3) } {
                            0 => { check("c11.transport-event-is-queued", kernel.outbound_substream_failed(sid)); cover("c11.outbound.failed"); }
                            k => {
                                // negotiated: the remote answers our handshake with its own, or closes the substream
                                let incoming: Vec<u8> = if k == 1 { vec![1, 0xBB] } else { Vec::new() };
                                let mut io = ScriptedIo::new(nd, incoming);
                                io.idle_at_end = k == 1;
                                let substream = Substream::new_verif(peer, SubstreamId::from(1000 + next_substream), Box::new(io), ProtocolCodec::UnsignedVarint(Some(16)));
                                next_substream += 1;
                                if !kernel.outbound_substream_opened(peer, conn, sid, substream) { assume(false); }
                                cover("c11.outbound.opened");
                            }
                        }
                    }
                }
            }
            5 => {
                // the remote opens a substream and sends its handshake (or closes right away)
                let conn = match connection { Some(c) => c, None => { assume(false); return; } };
                // the remote: closes at once / sends its handshake and stays / sends its handshake, one notification, and closes
                // (3: handshake, one notification, and stays)
                let remote = if forced { 1 + nd.choose("warm_remote", 3) } else { nd.choose("remote_inbound", 4) };
                let incoming: Vec<u8> = match remote { 0 => Vec::new(), 1 => vec![1, 0xCC], _ => vec![1, 0xCC, 1, 0x77] };
                let mut io = ScriptedIo::new(nd, incoming);
                io.idle_at_end = remote == 1 || remote == 3;
                let substream = Substream::new_verif(peer, SubstreamId::from(2000 + next_substream), Box::new(io), ProtocolCodec::UnsignedVarint(Some(16)));
                next_substream += 1;
                if !kernel.inbound_substream_opened(peer, conn, substream) { assume(false); }
                cover("c11.inbound.opened");
            }
            6 => {
                if !validation_pending { assume(false); }
                validation_pending = false;
                if forced || nd.bool("accept") { accepted = true; accepts += 1; handle.send_validation_result(peer, ValidationResult::Accept); cover("c11.user.accept"); }
                else {
                    // rejecting the peer's substream also revokes the user's own pending request for that peer (by design, no event)
                    handle.send_validation_result(peer, ValidationResult::Reject);
                    if outcomes < clean_requests { outcomes = clean_requests; }
                    cover("c11.user.reject");
                }
            }
            _ => { let _ = kernel.poll_tasks(&mut cx); }
        }

        // ---- the protocol task runs until it has nothing to do, then the stream tasks, then the user reads its events
        let mut rounds = 0;
        loop {
            rounds += 1;
            if rounds > 12 { check("c11.protocol-quiesces", false); return; }
            match kernel.poll_protocol(&mut cx) {
                nk::Polled::Pending => break,
                nk::Polled::Handled => {}
                nk::Polled::Exited => { check("c11.protocol-keeps-serving", false); return; }
            }
        }
        if settle || poll_old_task { let _ = kernel.poll_tasks(&mut cx); poll_old_task = false; }
        let mut reads = 0;
        loop {
            reads += 1;
            if reads > 12 { break; }
            match Pin::new(&mut handle).poll_next(&mut cx) {
                Poll::Pending => break,
                Poll::Ready(None) => { check("c11.handle-stays-connected-to-the-protocol", false); return; }
                Poll::Ready(Some(event)) => match event {
                    NotificationEvent::ValidateSubstream { peer: p, .. } => {
                        cover("c11.event.validate");
                        check("c11.event-names-the-peer", p == peer);
                        validation_pending = true;
                        accepted = false;
                    }
                    NotificationEvent::NotificationStreamOpened { peer: p, direction, .. } => {
                        cover("c11.event.opened");
                        check("c11.event-names-the-peer", p == peer);
                        // The closed event of a stream comes from that stream's own task. Once the user closed the stream or its
                        // connection was lost, nothing makes the protocol task wait for that task: if it is not scheduled for long
                        // enough, a complete new stream can open first (recorded finding C11-stale-stream-task, own check id).
                        if open && (closing || lost) {
                            cover("c11.race.stale-stream-task");
                            check("c11.race: new stream opens before the old stream's task reported it closed", false);
                        }
                        check("c11.opened-and-closed-alternate", !open);
                        open = true;
                        // the stream exists because the user asked for it or accepted the remote's request
                        check("c11.stream-opens-only-after-a-request-or-an-acceptance", requested_since_closed || accepted);
                        if matches!(direction, litep2p::protocol::notification::Direction::Outbound) { answers += 1; }
                        outcomes += 1;
                    }
                    NotificationEvent::NotificationStreamClosed { peer: p } => {
                        cover("c11.event.closed");
                        check("c11.event-names-the-peer", p == peer);
                        check("c11.opened-and-closed-alternate", open);
                        open = false;
                        closing = false;
                        lost = false;
                        accepted = false;
                        requested_since_closed = false;
                    }
                    NotificationEvent::NotificationStreamOpenFailure { peer: p, .. } => {
                        cover("c11.event.open-failure");
                        check("c11.event-names-the-peer", p == peer);
                        // (a stream the user itself is closing, or whose connection is gone, counts as closed here: its closed event
                        // comes from the stream's own task and may be overtaken by the answer to a later request)
                        check("c11.no-open-failure-while-the-stream-is-open", !open || closing || lost);
                        answers += 1;
                        outcomes += 1;
                    }
                    NotificationEvent::NotificationReceived { .. } => { cover("c11.event.notification"); check("c11.notifications-only-while-open", open); }
                },
            }
        }
        // every outbound open and every open failure answers something the user did: a request, or an acceptance (after which
        // the protocol opens its own substream, which may still fail)
        check("c11.answers-never-outnumber-requests-and-acceptances", answers <= requests + accepts);
    }
    // ---- after the connection was lost and everything was polled
    check("c11.lost-connection-ends-the-open-stream", !open);
}

// ------------------------------------------------------------------------------------------ C09 keep-alive downgrade timing
use litep2p::verif_clock as vclock;

/// C09 (this protocol's share of the idle mechanism): a connection's handle is downgraded once the keep-alive timeout has
/// elapsed since the protocol's last keep-alive activity on it and the service is polled, never before; opening a
/// substream counts as activity (and re-activates a downgraded handle) only for a keep-alive protocol.
pub fn c09_keep_alive(nd: &mut Nondet) {
    const TICK: u64 = 100;
    let timeout_ms = (2 + nd.choose("timeout_ticks", 2)) * TICK;
    let keep_alive = nd.bool("keep_alive_protocol");
    let mut manager = TransportManagerBuilder::new().build();
    let (mut service, transport_end) = ts::new_service_with(&mut manager, Duration::from_millis(timeout_ms), keep_alive);
    let peer = nd.peer_id_fixed(1);
    // reference: live connections, primary first: (id, last activity [ms], downgraded)
    let mut conns: Vec<(usize, u64, bool)> = Vec::new();
    let mut channels: Vec<(usize, ts::CommandQueue)> = Vec::new();
    let mut next_id = 0usize;
    let mut now = 0u64;
    let steps = param("steps", 5);
    for _ in 0..steps {
        match nd.choose("event", 6) {
            5 => {
                // the remote opened a substream of this protocol on one of the connections (negotiated by the connection task)
                if conns.is_empty() { assume(false); }
                let k = nd.choose("which", conns.len() as u64) as usize;
                let id = conns[k].0;
                let io = ScriptedIo::new(nd, Vec::new());
                let substream = Substream::new_verif(peer, SubstreamId::from(500 + next_id), Box::new(io), ProtocolCodec::UnsignedVarint(Some(16)));
                let queue = &channels.iter().find(|(c, _)| *c == id).expect("channel of a live connection").1;
                check("c09.transport-event-is-queued", ts::substream_opened(&transport_end, queue, peer, ConnectionId::from(id), substream));
                if keep_alive { conns[k].1 = now; conns[k].2 = false; }
                let _ = ts::poll_service(&mut service);
                for c in conns.iter_mut() { if now >= c.1 + timeout_ms { c.2 = true; } }
                cover("c09.substream-opened");
            }
            0 => {
                if conns.len() >= 2 { assume(false); }
                let id = next_id; next_id += 1;
                let (handle, queue) = ts::new_connection(ConnectionId::from(id));
                channels.push((id, queue));
                let endpoint = Endpoint::Listener { address: Multiaddr::empty(), connection_id: ConnectionId::from(id) };
                let _ = ts::on_connection_established(&mut service, peer, endpoint, ConnectionId::from(id), handle);
                conns.push((id, now, false));
                // the tracker wakes the protocol task, which is polled before time passes (the idle timer is armed by that poll)
                let _ = ts::poll_service(&mut service);
                for c in conns.iter_mut() { if now >= c.1 + timeout_ms { c.2 = true; } }
                cover("c09.established");
            }
            1 => {
                let k = 1 + nd.choose("ticks", 2);
                // time passes one tick at a time; a timer that becomes due wakes the protocol task, which is polled at that moment
                for _ in 0..k {
                    vclock::advance(TICK);
                    now += TICK;
                    let _ = ts::poll_service(&mut service);
                    for c in conns.iter_mut() { if now >= c.1 + timeout_ms { if !c.2 { cover("c09.downgraded"); } c.2 = true; } }
                }
                cover("c09.time-passes");
            }
            2 => {
                if conns.is_empty() { assume(false); }
                match service.open_substream(peer) {
                    Ok(_) => {
                        cover("c09.substream-requested");
                        for (_, queue) in channels.iter_mut() { let _ = ts::next_open_command(queue); }
                        if keep_alive { conns[0].1 = now; conns[0].2 = false; }
                        let _ = ts::poll_service(&mut service);
                        for c in conns.iter_mut() { if now >= c.1 + timeout_ms { c.2 = true; } }
                    }
                    Err(_) => { check("c09.open-on-a-live-connection-is-accepted", false); }
                }
            }
            3 => {
                let _ = ts::poll_service(&mut service);
                for c in conns.iter_mut() { if now >= c.1 + timeout_ms { if !c.2 { cover("c09.downgraded"); } c.2 = true; } }
                cover("c09.polled");
            }
            _ => {
                if conns.is_empty() { assume(false); }
                let k = nd.choose("which", conns.len() as u64) as usize;
                let (id, _, _) = conns.remove(k);
                channels.retain(|(c, _)| *c != id);
                let _ = ts::on_connection_closed(&mut service, peer, ConnectionId::from(id));
                cover("c09.closed");
            }
        }
        match (ts::connections_active(&service, &peer), conns.len()) {
            (None, 0) => {}
            (Some((primary, secondary)), n) if n > 0 => {
                // not before the timeout since the last activity, and at the first poll after it
                check("c09.primary-is-active-exactly-until-its-idle-timeout-is-noticed", primary == !conns[0].2);
                if conns[0].2 { check("c09.no-downgrade-before-the-timeout", now >= conns[0].1 + timeout_ms); }
                match (secondary, n) {
                    (Some(active), 2) => {
                        check("c09.secondary-is-active-exactly-until-its-idle-timeout-is-noticed", active == !conns[1].2);
                        if conns[1].2 { check("c09.no-downgrade-before-the-timeout", now >= conns[1].1 + timeout_ms); }
                    }
                    (None, 1) => {}
                    _ => check("c09.service-tracks-the-live-connections", false),
                }
            }
            _ => check("c09.service-tracks-the-live-connections", false),
        }
    }
}
