//! Harness runtime. Natively the values come from a vector; under mirsym every function here is intercepted.
use litep2p::PeerId;
use multiaddr::{Multiaddr, Protocol};

pub struct Nondet {
    pub vals: Vec<u64>,
    pub pos: usize,
}

impl Nondet {
    pub fn new(vals: Vec<u64>) -> Self { Self { vals, pos: 0 } }
    fn next(&mut self) -> u64 { let v = self.vals.get(self.pos).copied().unwrap_or(0); self.pos += 1; v }
    #[inline(never)] pub fn u64(&mut self, _name: &'static str) -> u64 { self.next() }
    #[inline(never)] pub fn usize(&mut self, _name: &'static str) -> usize { self.next() as usize }
    #[inline(never)] pub fn i32(&mut self, _name: &'static str) -> i32 { self.next() as i32 }
    #[inline(never)] pub fn u16(&mut self, _name: &'static str) -> u16 { self.next() as u16 }
    #[inline(never)] pub fn u8(&mut self, _name: &'static str) -> u8 { self.next() as u8 }
    #[inline(never)] pub fn bool(&mut self, _name: &'static str) -> bool { self.next() & 1 == 1 }
    #[inline(never)] pub fn choose(&mut self, _name: &'static str, n: u64) -> u64 { self.next() % n }
    #[inline(never)] pub fn multiaddr(&mut self, _name: &'static str) -> Multiaddr {
        let v = self.next() as u16;
        Multiaddr::empty().with(Protocol::Ip4([10, 0, (v >> 8) as u8, v as u8].into())).with(Protocol::Tcp(4000))
    }
    #[inline(never)] pub fn cid(&mut self, _name: &'static str) -> cid::Cid {
        let v = self.next() as u8;
        cid::Cid::new_v1(0x55, multihash::Multihash::<64>::wrap(0x00, &[v]).expect("fits"))
    }
    /// `len` bytes of a fixed, position-dependent pattern (so loss, duplication and reordering are visible)
    #[inline(never)] pub fn pattern(&mut self, len: usize) -> Vec<u8> { (0..len).map(|i| (i % 251) as u8).collect() }
    /// a byte vector of the given length whose contents do not matter
    #[inline(never)] pub fn blob(&mut self, len: usize) -> Vec<u8> { vec![0u8; len] }
    /// a fixed, valid peer id identified by `v` (no solver variable)
    #[inline(never)] pub fn peer_id_fixed(&mut self, v: u8) -> PeerId {
        let mut b = [0u8; 34];
        b[1] = 32;
        b[2] = v;
        PeerId::from_bytes(&b).expect("valid identity multihash")
    }
    #[inline(never)] pub fn peer_id(&mut self, _name: &'static str) -> PeerId {
        let v = self.next() as u8;
        let mut b = [0u8; 34];
        b[1] = 32;
        b[2] = v;
        PeerId::from_bytes(&b).expect("valid identity multihash")
    }
}

#[inline(never)] pub fn assume(c: bool) { if !c { std::process::exit(3); } }
#[inline(never)] pub fn check(id: &'static str, c: bool) { if !c { println!("CHECK-FAILED {id}"); std::process::exit(1); } }
#[inline(never)] pub fn cover(id: &'static str) { println!("COVER {id}"); }
#[inline(never)] pub fn observe(tag: &'static str, v: u64) { println!("OBS {tag} {v}"); }

/// Harness bound that differs between tiers (natively: env VERIF_PARAM_<name>; under mirsym: --param name=value).
#[inline(never)] pub fn param(name: &'static str, default: u64) -> u64 {
    std::env::var(format!("VERIF_PARAM_{name}")).ok().and_then(|v| v.parse().ok()).unwrap_or(default)
}
