"""ADT layouts and impl table from rustdoc JSON (format_version 57)."""
import json
import re

BUILTIN = {
    'std::option::Option': [('None', [], 0), ('Some', ['0'], 1)],
    'std::result::Result': [('Ok', ['0'], 0), ('Err', ['0'], 1)],
    'std::task::Poll': [('Ready', ['0'], 0), ('Pending', [], 1)],
    'std::ops::ControlFlow': [('Continue', ['0'], 0), ('Break', ['0'], 1)],
    'std::cmp::Ordering': [('Less', [], -1), ('Equal', [], 0), ('Greater', [], 1)],
    'std::ops::Range': [('Range', ['start', 'end'], 0)],
    'std::ops::RangeTo': [('RangeTo', ['end'], 0)],
    'std::ops::RangeFrom': [('RangeFrom', ['start'], 0)],
    'std::ops::RangeInclusive': [('RangeInclusive', ['start', 'end', 'exhausted'], 0)],
    'std::ops::RangeFull': [('RangeFull', [], 0)],
    'std::ops::RangeToInclusive': [('RangeToInclusive', ['end'], 0)],
    'std::pin::Pin': [('Pin', ['pointer'], 0)],
    'std::net::IpAddr': [('V4', ['0'], 0), ('V6', ['0'], 1)],
}


CRATE_PREFIXES = ('litep2p::',)
ALIASES = {}      # re-export path -> canonical definition path (both without crate prefix)


def base_ty(ty):
    """strip generic arguments (and the crate prefix used by downstream crates) from a type string"""
    ty = ty.strip()
    for p in CRATE_PREFIXES:
        if ty.startswith(p):
            ty = ty[len(p):]
    if ty.startswith('core::'):
        ty = 'std::' + ty[6:]
    i = ty.find('<')
    if i >= 0 and not ty.startswith('<'):
        ty = ty[:i]
    ty = ty.rstrip(':')
    return ALIASES.get(ty, ty)


class Adts:
    def __init__(self, json_path=None, crate_prefix=''):
        self.defs = dict(BUILTIN)
        self.impl_by_span = {}
        self.impl_self = {}
        if json_path:
            self.load(json_path, crate_prefix)

    def load(self, json_path, crate_prefix='', harness=False):
        d = json.load(open(json_path))
        idx = d['index']
        paths = d['paths']
        for k, p in paths.items():
            if p['crate_id'] != 0 or p['kind'] not in ('enum', 'struct', 'union'):
                continue
            it = idx.get(k)
            if it is None:
                continue
            full = crate_prefix + '::'.join(p['path'][1:])
            inner = it['inner']
            if 'enum' in inner:
                variants = []
                next_discr = 0
                for vid in inner['enum']['variants']:
                    v = idx[str(vid)]
                    vi = v['inner']['variant']
                    kind = vi['kind']
                    if kind == 'plain':
                        fields = []
                    elif 'struct' in kind:
                        fields = [idx[str(f)]['name'] for f in kind['struct']['fields']]
                    else:
                        fields = [str(i) for i, _ in enumerate(kind['tuple'])]
                    if vi.get('discriminant'):
                        next_discr = int(vi['discriminant']['value'])
                    variants.append((v['name'], fields, next_discr))
                    next_discr += 1
                self.defs[full] = variants
            elif 'struct' in inner:
                kind = inner['struct']['kind']
                if kind == 'unit':
                    fields = []
                elif 'plain' in kind:
                    fields = [idx[str(f)]['name'] for f in kind['plain']['fields']]
                else:
                    fields = [str(i) for i, _ in enumerate(kind['tuple'])]
                self.defs[full] = [(it['name'], fields, 0)]
        if harness:
            return
        # re-exports: walk the module tree
        root = idx[str(d['root'])]

        def walk(mod, path):
            for iid in mod['inner']['module']['items']:
                it = idx.get(str(iid))
                if it is None:
                    continue
                inner = it['inner']
                if 'module' in inner:
                    walk(it, path + [it['name']])
                elif 'use' in inner:
                    u = inner['use']
                    tid = u.get('id')
                    if tid is None or u.get('is_glob'):
                        continue
                    tp = paths.get(str(tid))
                    if tp is None or tp['crate_id'] != 0:
                        continue
                    alias = '::'.join(path + [u['name']])
                    canon = '::'.join(tp['path'][1:])
                    if alias != canon:
                        ALIASES[crate_prefix + alias] = crate_prefix + canon
        walk(root, [])
        # impl table keyed by "file:line:col"
        for k, it in idx.items():
            inner = it.get('inner', {})
            if 'impl' in inner and it.get('span'):
                sp = it['span']
                key = '%s:%d:%d' % (sp['filename'], sp['begin'][0], sp['begin'][1])
                im = inner['impl']
                self.impl_by_span.setdefault(key, []).append((im.get('for'), im.get('trait')))
                f = im.get('for') or {}
                rp = f.get('resolved_path')
                full = None
                if rp is not None:
                    tp = paths.get(str(rp.get('id')))
                    if tp is not None:
                        full = '::'.join(tp['path'][1:] if tp['crate_id'] == 0 else tp['path'])
                        if tp['crate_id'] == 0:
                            full = crate_prefix + full
                if full or key not in self.impl_self:
                    self.impl_self[key] = full

    def variants(self, ty):
        b = base_ty(ty)
        if b in self.defs:
            return self.defs[b]
        raise KeyError('unknown ADT ' + b)

    def has(self, ty):
        return base_ty(ty) in self.defs

    def variant_index(self, ty, name):
        vs = self.variants(ty)
        for i, (n, f, d) in enumerate(vs):
            if n == name:
                return i
        if len(vs) == 1:
            return 0
        raise KeyError((ty, name))
