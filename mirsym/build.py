"""Regeneration of the encoder's inputs from /repo's current working tree.

Everything is produced by the compiler from the sources as they are *now*:
  * MIR of litep2p (feature `verif`), plain and stable-mir printers
  * rustdoc JSON of litep2p (ADT layouts, impl table, re-exports)
  * MIR of the harness crate (plain + stable-mir)
  * MIR of small leaf dependencies that are interpreted rather than modelled
  * the natively compiled `replay` binary (dev and release) of the harness crate
Results are cached under /verif/.cache keyed by a hash of the inputs; any edit to /repo's
sources (or to the harness crate) produces a new key and therefore a fresh dump.
"""
import fcntl
import glob
import hashlib
import os
import shutil
import subprocess
import sys
import time

VERIF = os.path.dirname(os.path.dirname(os.path.abspath(__file__)))
REPO = os.environ.get('VERIF_REPO', '/repo')
CACHE = os.environ.get('VERIF_CACHE', os.path.join(VERIF, '.cache'))
HARNESS = os.path.join(VERIF, 'harness')
NIGHTLY = 'nightly'
DEP_CRATES = ['unsigned-varint', 'libp2p-identity']          # interpreted from their own MIR

RUSTC_MIR = ['-Zunpretty=mir', '-Ztrim-diagnostic-paths=no', '-C', 'debug-assertions=off', '-C', 'overflow-checks=on']
RUSTC_SMIR = ['-Zunpretty=stable-mir', '-Ztrim-diagnostic-paths=no']


def _env(target):
    e = dict(os.environ)
    e['CARGO_NET_OFFLINE'] = 'true'
    e['CARGO_TARGET_DIR'] = target
    e.pop('RUSTFLAGS', None)
    return e


def tree_hash(paths):
    h = hashlib.sha256()
    files = []
    for p in paths:
        if os.path.isdir(p):
            for root, dirs, fs in os.walk(p):
                dirs.sort()
                for f in sorted(fs):
                    files.append(os.path.join(root, f))
        elif os.path.exists(p):
            files.append(p)
    for f in files:
        h.update(f.encode())
        with open(f, 'rb') as fh:
            h.update(hashlib.sha256(fh.read()).digest())
    return h.hexdigest()[:16]


def repo_hash():
    return tree_hash([os.path.join(REPO, x) for x in ('src', 'Cargo.toml', 'Cargo.lock', 'build.rs')])


def harness_hash():
    return tree_hash([os.path.join(HARNESS, 'src'), os.path.join(HARNESS, 'Cargo.toml')])


class BuildError(Exception):
    pass


def _run(cmd, cwd, env, out_path=None, what=''):
    t = time.time()
    with open(out_path, 'wb') if out_path else open(os.devnull, 'wb') as out:
        r = subprocess.run(cmd, cwd=cwd, env=env, stdout=out, stderr=subprocess.PIPE)
    if r.returncode != 0:
        tail = r.stderr.decode(errors='replace')[-3000:]
        raise BuildError('%s failed (exit %d): %s\n%s' % (what or cmd[0], r.returncode, ' '.join(cmd), tail))
    return time.time() - t


def _nonce():
    return ['--cfg', 'mirsym_nonce_%d' % int(time.time() * 1000)]


def _sync_lock():
    # the harness crate resolves against the repository's own lock file (committed copy; refreshed only if missing)
    dst = os.path.join(HARNESS, 'Cargo.lock')
    if not os.path.exists(dst):
        shutil.copyfile(os.path.join(REPO, 'Cargo.lock'), dst)


def ensure(log=print, need_native=True):
    """returns dict with paths of all dumps and binaries for the current trees"""
    os.makedirs(CACHE, exist_ok=True)
    lock = open(os.path.join(CACHE, '.lock'), 'w')
    fcntl.flock(lock, fcntl.LOCK_EX)
    try:
        return _ensure(log, need_native)
    finally:
        fcntl.flock(lock, fcntl.LOCK_UN)
        lock.close()


def _ensure(log, need_native):
    rh = repo_hash()
    hh = harness_hash()
    tn = os.path.join(CACHE, 'target-nightly')
    ts = os.path.join(CACHE, 'target-stable')
    ddir = os.path.join(CACHE, 'dumps')
    os.makedirs(ddir, exist_ok=True)
    ldir = os.path.join(ddir, 'repo-' + rh)
    hdir = os.path.join(ddir, 'harness-%s-%s' % (rh, hh))
    times = {}
    _sync_lock()
    if not os.path.exists(os.path.join(ldir, 'ok')):
        _gc(ddir, 'repo-', keep=ldir)
        os.makedirs(ldir, exist_ok=True)
        env = _env(tn)
        base = ['cargo', '+' + NIGHTLY, 'rustc', '--offline', '--lib', '--features', 'verif', '--']
        log('[build] dumping MIR of litep2p (%s)' % rh)
        times['litep2p_mir_s'] = _run(base + RUSTC_MIR + _nonce(), REPO, env, os.path.join(ldir, 'l.mir'), 'litep2p MIR dump')
        times['litep2p_smir_s'] = _run(base + RUSTC_SMIR + _nonce(), REPO, env, os.path.join(ldir, 'l.smir'), 'litep2p stable-mir dump')
        log('[build] rustdoc JSON of litep2p')
        times['rustdoc_s'] = _run(['cargo', '+' + NIGHTLY, 'rustdoc', '--offline', '--lib', '--features', 'verif', '--',
                                   '-Zunstable-options', '--output-format', 'json', '--document-private-items'] , REPO, env, None, 'rustdoc json')
        shutil.copyfile(os.path.join(tn, 'doc', 'litep2p.json'), os.path.join(ldir, 'rd.json'))
        specs = _dep_specs(env)
        for dep in DEP_CRATES:
            out = os.path.join(ldir, dep.replace('-', '_') + '.mir')
            times['dep_%s_s' % dep] = _run(['cargo', '+' + NIGHTLY, 'rustc', '--offline', '-p', specs[dep], '--lib', '--'] + RUSTC_MIR + _nonce(),
                                          REPO, env, out, dep + ' MIR dump')
        for f in ('l.mir', 'l.smir', 'rd.json'):
            if os.path.getsize(os.path.join(ldir, f)) < 1000:
                raise BuildError('empty dump ' + f)
        open(os.path.join(ldir, 'ok'), 'w').write(rh)
    if not os.path.exists(os.path.join(hdir, 'ok')):
        _gc(ddir, 'harness-', keep=hdir)
        os.makedirs(hdir, exist_ok=True)
        env = _env(tn)
        base = ['cargo', '+' + NIGHTLY, 'rustc', '--offline', '--lib', '--']
        log('[build] dumping MIR of the harness crate (%s)' % hh)
        times['harness_mir_s'] = _run(base + RUSTC_MIR + _nonce(), HARNESS, env, os.path.join(hdir, 'h.mir'), 'harness MIR dump')
        times['harness_smir_s'] = _run(base + RUSTC_SMIR + _nonce(), HARNESS, env, os.path.join(hdir, 'h.smir'), 'harness stable-mir dump')
        if os.path.getsize(os.path.join(hdir, 'h.mir')) < 1000:
            raise BuildError('empty harness dump')
        times['harness_rustdoc_s'] = _run(['cargo', '+' + NIGHTLY, 'rustdoc', '--offline', '--lib', '--', '-Zunstable-options', '--output-format', 'json',
                                           '--document-private-items'], HARNESS, env, None, 'harness rustdoc json')
        shutil.copyfile(os.path.join(tn, 'doc', 'litep2p_verif_harness.json'), os.path.join(hdir, 'hrd.json'))
        open(os.path.join(hdir, 'ok'), 'w').write(hh)
    if need_native and not os.path.exists(os.path.join(hdir, 'replay-dev')):
        _native(hdir, ts, times, log, 'dev')
    if need_native == 'release' and not os.path.exists(os.path.join(hdir, 'replay-release')):
        _native(hdir, ts, times, log, 'release')
    return dict(lmir=os.path.join(ldir, 'l.mir'), lsmir=os.path.join(ldir, 'l.smir'), rd=os.path.join(ldir, 'rd.json'),
                hmir=os.path.join(hdir, 'h.mir'), hsmir=os.path.join(hdir, 'h.smir'), hrd=os.path.join(hdir, 'hrd.json'),
                deps={d.replace('-', '_'): os.path.join(ldir, d.replace('-', '_') + '.mir') for d in DEP_CRATES},
                replay_dev=os.path.join(hdir, 'replay-dev'), replay_release=os.path.join(hdir, 'replay-release'),
                repo_hash=rh, harness_hash=hh, times=times)


def _dep_specs(env):
    """package specs (name@version) of litep2p's *direct* dependencies, from cargo metadata"""
    import json
    r = subprocess.run(['cargo', 'metadata', '--offline', '--format-version', '1'], cwd=REPO, env=env, capture_output=True)
    if r.returncode != 0:
        raise BuildError('cargo metadata failed: ' + r.stderr.decode(errors='replace')[-2000:])
    md = json.loads(r.stdout)
    pk = {p['id']: p for p in md['packages']}
    root = [n for n in md['resolve']['nodes'] if pk[n['id']]['name'] == 'litep2p'][0]
    out = {}
    byname = {}
    for p in md['packages']:
        byname.setdefault(p['name'], []).append(p)
    for name, ps in byname.items():
        if len(ps) == 1:
            out[name] = '%s@%s' % (name, ps[0]['version'])
    # direct dependencies win where several versions of a crate are in the graph
    for d in root['deps']:
        p = pk[d['pkg']]
        out[p['name']] = '%s@%s' % (p['name'], p['version'])
    return out


def _native(hdir, ts, times, log, profile):
    env = _env(ts)
    log('[build] compiling the native replay binary (%s)' % profile)
    if profile == 'dev':
        times['native_dev_s'] = _run(['cargo', 'build', '--offline', '--bin', 'replay'], HARNESS, env, None, 'native harness build (dev)')
        shutil.copyfile(os.path.join(ts, 'debug', 'replay'), os.path.join(hdir, 'replay-dev.tmp'))
    else:
        times['native_release_s'] = _run(['cargo', 'build', '--offline', '--release', '--bin', 'replay'], HARNESS, env, None, 'native harness build (release)')
        shutil.copyfile(os.path.join(ts, 'release', 'replay'), os.path.join(hdir, 'replay-release.tmp'))
    os.chmod(os.path.join(hdir, 'replay-%s.tmp' % profile), 0o755)
    os.rename(os.path.join(hdir, 'replay-%s.tmp' % profile), os.path.join(hdir, 'replay-%s' % profile))


def _gc(ddir, prefix, keep, keep_recent=4):
    """drop old dumps, but keep the most recent few: another check may still be running on them"""
    dirs = sorted((d for d in glob.glob(os.path.join(ddir, prefix + '*')) if d != keep), key=lambda d: os.path.getmtime(d), reverse=True)
    for d in dirs[keep_recent:]:
        shutil.rmtree(d, ignore_errors=True)


if __name__ == '__main__':
    try:
        r = ensure()
    except BuildError as e:
        print('BUILD ERROR:', e)
        sys.exit(2)
    for k, v in r.items():
        print(k, v)
