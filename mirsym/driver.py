"""Check driver: runs the harness units of one property through mirsym, replays counterexamples on the
natively compiled harness, validates the translator (conformance), applies the known-findings list and
writes the evidence file."""
import collections
import hashlib
import json
import multiprocessing as mp
import os
import random
import subprocess
import sys
import time

from . import mir, build, rt
from .adts import Adts
from .interp import Interp, Inconclusive, Violation
from .values import Cell, Ptr, Adt, Seq, Int

VERIF = build.VERIF


# ------------------------------------------------------------------------------------------- loading

def load(paths):
    t = time.time()
    bodies = mir.parse_file(paths['lmir'])
    for name, b in mir.parse_file(paths['hmir']).items():
        b.name = 'harness::' + name
        bodies[b.name] = b
    dep_prefixes = []
    for crate, p in paths['deps'].items():
        for name, b in mir.parse_file(p).items():
            b.name = crate + '::' + name
            bodies[b.name] = b
        dep_prefixes.append(crate + '::')
    adts = Adts(paths['rd'])
    if os.path.exists(paths.get('hrd', '')):
        adts.load(paths['hrd'], harness=True)
    it = Interp(bodies, adts)
    it.dep_crates = dep_prefixes
    ops = {}
    for smir in (paths['lsmir'], paths['hsmir']):
        ops.update(mir.load_closure_operands(smir))
    it.closure_operands = ops or None
    it.harness_prefix = 'harness::'
    from .models import install_all
    install_all(it)
    rt.install(it)
    it.params = {}
    return it, time.time() - t


def fresh_stats():
    return dict(paths=0, infeasible=0, solver_calls=0, solver_s=0.0, stmts=0, calls=0, vcs=0, funcs={}, models={}, max_depth=0)


def make_entry(it, fn):
    body = it.bodies.get('harness::' + fn)
    if body is None:
        raise Inconclusive('harness function %s not found in the harness MIR' % fn)

    def harness(it):
        nd = Cell('nd', Adt('harness::verif_rt::Nondet', 0, [Seq((), 'vec'), Int(0, 64)]))
        it.call_body(body, [Ptr(nd)])
        if it.params.get('__twin'):
            raise Violation('check', 'TWIN', it.current_model())
    return harness


# ------------------------------------------------------------------------------------------- parallel exploration

_W = {}


def _worker(prefix):
    it = _W['it']
    it.split_depth = None
    it.stats = fresh_stats()
    it.cover_hits = {}
    it.samples = []
    it.signatures = set()
    try:
        viol = it.explore(_W['harness'], prefix=prefix, deadline=_W['deadline'])
        err = None
    except Inconclusive as e:
        viol = []
        err = '%s at %s' % (e, getattr(it, 'cur_stmt', None))
    except Exception as e:      # engine bug: never a pass
        import traceback
        viol = []
        err = 'ENGINE ERROR %r at %s\n%s' % (e, getattr(it, 'cur_stmt', None), traceback.format_exc(limit=4))
    return (it.stats, [(v.kind, v.msg, v.model, getattr(v, 'trace', [])) for v in viol], it.cover_hits, err, it.samples, it.signatures)


def explore_parallel(it, harness, jobs, split_depth, deadline):
    it.split_depth = split_depth
    it.work_items = []
    viol = it.explore(harness, deadline=deadline)          # enumerates the tree down to split_depth only
    items = it.work_items
    it.split_depth = None
    if not items:
        return viol
    _W.update(it=it, harness=harness, deadline=deadline)
    ctx = mp.get_context('fork')
    errs = []
    with ctx.Pool(min(jobs, len(items))) as pool:
        for st, vs, cover, err, samples, sigs in pool.imap_unordered(_worker, items, chunksize=1):
            for k in ('paths', 'infeasible', 'solver_calls', 'solver_s', 'stmts', 'calls', 'vcs'):
                it.stats[k] += st[k]
            it.stats['max_depth'] = max(it.stats['max_depth'], st['max_depth'])
            for k, v in st['funcs'].items():
                it.stats['funcs'][k] = it.stats['funcs'].get(k, 0) + v
            for k, v in st['models'].items():
                it.stats['models'][k] = it.stats['models'].get(k, 0) + v
            for k, v in cover.items():
                it.cover_hits[k] = it.cover_hits.get(k, 0) + v
            for kind, msg, model, trace in vs:
                v = Violation(kind, msg, model)
                v.trace = trace
                viol.append(v)
            for s in samples:
                if len(it.samples) < 40:
                    it.samples.append(s)
            it.signatures |= sigs
            if err:
                errs.append(err)
    if errs:
        raise Inconclusive('%d sub-trees inconclusive, first: %s' % (len(errs), errs[0]))
    return viol


# ------------------------------------------------------------------------------------------- native side

def native_run(binary, fn, values, params, timeout=120):
    env = dict(os.environ)
    for k, v in params.items():
        env['VERIF_PARAM_' + k] = str(v)
    env['RUST_BACKTRACE'] = '0'
    try:
        r = subprocess.run([binary, fn] + [str(v) for v in values], capture_output=True, text=True, env=env, timeout=timeout)
    except subprocess.TimeoutExpired:
        return dict(code=-1, trace=['TIMEOUT'], failed=None, panicked=False, stderr='timeout')
    lines = [l for l in r.stdout.split('\n') if l.startswith(('COVER', 'OBS', 'CHECK-FAILED', 'HARNESS-OK'))]
    failed = None
    for l in lines:
        if l.startswith('CHECK-FAILED '):
            failed = l[len('CHECK-FAILED '):]
    panicked = r.returncode not in (0, 1, 3)
    return dict(code=r.returncode, trace=lines, failed=failed, panicked=panicked, stderr=r.stderr[-600:])


def conform(it, harness, fn, n, seed, binary, nvals, params, log, witnesses=()):
    """translator validation: the same value vectors through mirsym in concrete mode and the native harness.
    Vectors: the solver's witnesses of explored paths (deep, non-trivial traces) followed by random ones."""
    rnd = random.Random(seed)
    agree = 0
    nontrivial = 0
    saved = it.stats
    vectors = [list(w) for w in witnesses]
    for i in range(n):
        vectors.append([rnd.choice([0, 1, 2, 3, rnd.randrange(8), rnd.randrange(256), rnd.randrange(1 << 16), rnd.randrange(1 << 64)]) for _ in range(nvals)])
    for vec in vectors:
        it.concrete = vec
        it.stats = fresh_stats()
        try:
            viol = it.explore(harness)
            sym_trace = list(it.trace)
            if viol:
                sym_trace = list(getattr(viol[0], 'trace', sym_trace))
                sym_trace.append(('CHECK-FAILED ' + viol[0].msg) if viol[0].kind == 'check' else 'PANIC')
            else:
                sym_trace.append('HARNESS-OK')
            if it.stats['infeasible'] and not it.stats['paths']:
                sym_trace = ['ASSUME-FALSE']
            elif it.stats['paths'] + it.stats['infeasible'] > 1 and not viol:
                # model-internal nondeterminism (e.g. unordered-map iteration) - compare as a set later
                pass
        except Inconclusive as e:
            it.concrete = None
            it.stats = saved
            return agree, 'mirsym inconclusive on vector %r: %s' % (vec, e)
        r = native_run(binary, fn, vec, params)
        nat = list(r['trace'])
        if r['code'] == 3:
            nat = ['ASSUME-FALSE']
        elif r['panicked']:
            nat = [l for l in nat if not l.startswith('CHECK-FAILED')] + ['PANIC']
        if nat != sym_trace:
            it.concrete = None
            it.stats = saved
            return agree, 'CONFORMANCE MISMATCH on %r\n  native: %r\n  mirsym: %r' % (vec, nat, sym_trace)
        agree += 1
        if nat != ['ASSUME-FALSE']:
            nontrivial += 1
    it.concrete = None
    it.stats = saved
    it.conform_nontrivial = nontrivial
    return agree, None


# ------------------------------------------------------------------------------------------- known findings

def load_known():
    p = os.path.join(VERIF, 'known_findings.json')
    if not os.path.exists(p):
        return dict(findings=[], fixed=[])
    return json.load(open(p))


def match_known(known, prop, harness, check_id, trace):
    covers = set(l[len('COVER '):] for l in trace if l.startswith('COVER '))
    for f in known.get('findings', []):
        if f['property'] != prop or f['harness'] != harness:
            continue
        if f['check'] != check_id:
            continue
        if all(c in covers for c in f.get('requires_covers', [])) and not any(c in covers for c in f.get('excludes_covers', [])):
            return f
    return None


# ------------------------------------------------------------------------------------------- one unit

def run_unit(it, paths, prop, unit, tier, seed, log):
    fn = unit['harness']
    params = dict(unit.get('params', {}).get(tier, {}))
    jobs = int(os.environ.get('VERIF_JOBS', '16'))
    split = unit.get('split', {}).get(tier, unit.get('split', {}).get('quick', 6)) if isinstance(unit.get('split'), dict) else unit.get('split', 6)
    cap = unit.get('time_cap', {}).get(tier, 900 if tier == 'quick' else 7200)
    res = dict(harness=fn, unit=unit.get('name', fn), params=params, status='pass', violations=[], known=[], notes=[])
    it.params = params
    it.stats = fresh_stats()
    it.cover_hits = {}
    it.samples = []
    it.signatures = set()
    it.concrete = None
    if unit.get('max_steps'):
        it.max_steps = unit['max_steps']
    else:
        it.max_steps = 2_000_000
    it.seed = seed
    t0 = time.time()
    try:
        harness = make_entry(it, fn)
        deadline = t0 + cap
        if jobs > 1 and split:
            viol = explore_parallel(it, harness, jobs, split, deadline)
        else:
            viol = it.explore(harness, deadline=deadline)
    except Inconclusive as e:
        res['status'] = 'inconclusive'
        res['notes'].append('INCONCLUSIVE: %s at %s' % (e, getattr(it, 'cur_stmt', None)))
        viol = []
    except Exception as e:
        import traceback
        res['status'] = 'inconclusive'
        res['notes'].append('ENGINE ERROR: %r at %s\n%s' % (e, getattr(it, 'cur_stmt', None), traceback.format_exc(limit=5)))
        viol = []
    s = it.stats
    res['explore_s'] = round(time.time() - t0, 2)
    res['paths'] = s['paths']
    res['infeasible'] = s['infeasible']
    res['queries'] = s['solver_calls']
    res['solver_s'] = round(s['solver_s'], 2)
    res['stmts'] = s['stmts']
    res['calls'] = s['calls']
    res['vcs'] = s['vcs']
    res['functions_encoded'] = {n: dict(calls=c, mir_lines=it.bodies[n].nlines) for n, c in sorted(s['funcs'].items()) if n in it.bodies}
    res['models_used'] = dict(sorted(s['models'].items()))
    res['cover'] = dict(it.cover_hits)
    res['samples'] = it.samples[:8]
    res['distinct_signatures'] = len(it.signatures)
    log('[%s] %s: %d paths (%d infeasible), %d queries (%.1fs solver), %d stmts, %.1fs  cover=%s' % (
        prop, fn, s['paths'], s['infeasible'], s['solver_calls'], s['solver_s'], s['stmts'], res['explore_s'], dict(it.cover_hits)))
    # ---- violations: group, replay natively, classify
    known = load_known()
    groups = collections.OrderedDict()
    for v in viol:
        key = (v.kind, v.msg, tuple(l for l in getattr(v, 'trace', []) if l.startswith('COVER ')))
        groups.setdefault(key, []).append(v)
    if groups and res['status'] == 'pass':
        try:
            paths2 = build.ensure(log=log, need_native='release')
            paths.update(paths2)
        except build.BuildError as e:
            res['status'] = 'inconclusive'
            res['notes'].append('native build failed: %s' % e)
            groups = {}
    replayed = 0
    max_replays = unit.get('max_replays', 40)
    for (kind, msg, ctrace), vs in groups.items():
        v = vs[0]
        if v.model is None:
            res['status'] = 'inconclusive'
            res['notes'].append('violation without model: %s' % msg)
            continue
        if replayed >= max_replays:
            res['notes'].append('replay budget exhausted; remaining groups not classified')
            res['status'] = 'inconclusive'
            break
        replayed += 1
        values = [x for _, x in v.model]
        outcomes = {}
        ok = True
        for prof in ('dev', 'release'):
            r = native_run(paths['replay_' + prof], fn, values, params)
            outcomes[prof] = r
            if kind == 'check':
                ok = ok and (r['failed'] == msg)
            else:
                ok = ok and r['panicked']
        entry = dict(harness=fn, kind=kind, check=msg, witness=[[n, x] for n, x in v.model], values=values, params=params,
                     paths=len(vs), native_trace=outcomes['dev']['trace'], native_exit=dict((p, o['code']) for p, o in outcomes.items()))
        if not ok:
            # a panic in dev but not in release is still real (overflow checks): accept dev-only for arithmetic panics
            if kind != 'check' and outcomes['dev']['panicked']:
                entry['note'] = 'reproduces in the dev profile only'
                ok = True
        if not ok:
            res['status'] = 'inconclusive'
            entry['stderr'] = outcomes['dev']['stderr']
            res['notes'].append('counterexample for %r does NOT replay natively (model mismatch): %s' % (msg, json.dumps(entry)[:600]))
            continue
        check_id = msg if kind == 'check' else 'panic'
        kf = match_known(known, prop, fn, check_id, outcomes['dev']['trace'])
        if kf is not None:
            entry['known_finding'] = kf['id']
            res['known'].append(entry)
        else:
            res['violations'].append(entry)
    if res['violations'] and res['status'] == 'pass':
        res['status'] = 'violation'
    # ---- vacuity guards
    if res['status'] == 'pass':
        missing = [c for c in unit.get('covers', []) if not it.cover_hits.get(c)]
        if missing:
            res['status'] = 'inconclusive'
            res['notes'].append('vacuity: cover points never reached: %s' % missing)
        if s['paths'] < unit.get('min_paths', 1):
            res['status'] = 'inconclusive'
            res['notes'].append('vacuity: only %d feasible paths (minimum %d)' % (s['paths'], unit.get('min_paths', 1)))
    # ---- conformance (translator validation)
    res['conformance'] = 0
    n = unit.get('conform', {}).get(tier, 0)
    if res['status'] in ('pass',) and n:
        t1 = time.time()
        witnesses = [[x for _, x in smp['witness']] for smp in it.samples if smp.get('witness')]
        agree, err = conform(it, harness, fn, n, seed, paths['replay_dev'], unit.get('nvals', 40), params, log, witnesses)
        res['conformance_witness_vectors'] = len(witnesses)
        res['conformance'] = agree
        res['conformance_nontrivial'] = getattr(it, 'conform_nontrivial', 0)
        res['conform_s'] = round(time.time() - t1, 2)
        if err:
            res['status'] = 'inconclusive'
            res['notes'].append(err)
        else:
            log('[%s] %s: conformance %d/%d vectors agree with the native build, %d of them path witnesses (%.1fs)' % (prop, fn, agree, n + len(witnesses), len(witnesses), res['conform_s']))
    res['wall_s'] = round(time.time() - t0, 2)
    return res


# ------------------------------------------------------------------------------------------- must-fail twin

def run_twin(it, unit, tier, log):
    """vacuity witness: the same harness with verif_rt::twin_assert_false enabled must be violated"""
    fn = unit['harness']
    it.params = dict(unit.get('params', {}).get(tier, {}))
    it.params['__twin'] = 1
    it.stats = fresh_stats()
    it.cover_hits = {}
    it.samples = []
    it.signatures = set()
    try:
        # stop at the first path that reaches the end of the harness; paths that end earlier in a (known) violation are skipped
        viol = it.explore(make_entry(it, fn), stop_at_first=True, stop_msg='TWIN', deadline=time.time() + 300)
    except Inconclusive as e:
        return False, 'twin inconclusive: %s' % e
    return any(v.kind == 'check' and v.msg == 'TWIN' for v in viol), None
