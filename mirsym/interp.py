"""Symbolic interpreter for parsed MIR with decision-replay exploration."""
import re
import time
import z3

from . import mir
from .adts import Adts, base_ty
from .values import (Int, Unit, UNIT, Adt, Tup, Seq, Cell, Ptr, FnItem, Extern, Model, INT_TYPES, usize,
                     opt_none, opt_some)


class Infeasible(Exception):
    pass


class Inconclusive(Exception):
    """the engine cannot decide (unknown callee, unsupported construct, bound exceeded)"""


class SplitPoint(Exception):
    pass


class Violation(Exception):
    def __init__(self, kind, msg, model=None, where=None):
        Exception.__init__(self, msg)
        self.kind = kind      # 'check' | 'panic' | 'unreachable'
        self.msg = msg
        self.model = model
        self.where = where


def is_true(c):
    return c is True or (not isinstance(c, bool) and z3.is_true(c))


def is_false(c):
    return c is False or (not isinstance(c, bool) and z3.is_false(c))


def b_not(c):
    return (not c) if isinstance(c, bool) else z3.Not(c)


def b_and(*cs):
    out = []
    for c in cs:
        if c is False:
            return False
        if c is True:
            continue
        out.append(c)
    if not out:
        return True
    return out[0] if len(out) == 1 else z3.And(*out)


def b_or(*cs):
    out = []
    for c in cs:
        if c is True:
            return True
        if c is False:
            continue
        out.append(c)
    if not out:
        return False
    return out[0] if len(out) == 1 else z3.Or(*out)


class Frame:
    __slots__ = ('body', 'cells')

    def __init__(self, body):
        self.body = body
        self.cells = {}

    def cell(self, i):
        c = self.cells.get(i)
        if c is None:
            c = self.cells[i] = Cell('_%d' % i)
        return c


class Interp:
    def __init__(self, bodies, adts, crate='litep2p'):
        self.bodies = bodies
        self.adts = adts
        self.crate = crate
        self.solver = z3.Solver()
        self.models = []            # [(compiled regex, fn)]
        self.model_cache = {}
        self.resolve_cache = {}
        self.closure_bodies = None
        self.closure_operands = None
        self.cur_lhs = None
        self.method_index = None
        self.stats = dict(paths=0, infeasible=0, solver_calls=0, solver_s=0.0, stmts=0, calls=0, vcs=0,
                          funcs={}, models={}, max_depth=0)
        self.fresh = 0
        self.nondet_log = []        # (name, z3 var) in creation order for the current path
        self.cover_hits = {}
        self.max_steps = 2_000_000
        self.split_depth = None
        self.work_items = []
        self.concrete = None
        self.cpos = 0
        self.trace = []
        self.depth = 0
        self._const_cache = {}
        self._agg_cache = {}

    # ------------------------------------------------------------------ exploration
    def explore(self, harness, max_paths=None, time_cap=None, prefix=(), stop_at_first=False, deadline=None, stop_msg=None):
        """harness(interp) is re-run once per path. Returns list of Violation."""
        work = [list(prefix)]
        violations = []
        t0 = time.time()
        if not hasattr(self, 'samples'):
            self.samples = []
            self.signatures = set()
        while work:
            if max_paths and self.stats['paths'] >= max_paths:
                raise Inconclusive('path cap reached')
            if time_cap and time.time() - t0 > time_cap:
                raise Inconclusive('time cap reached')
            if deadline and time.time() > deadline:
                raise Inconclusive('time cap reached after %d paths' % self.stats['paths'])
            dec = work.pop()
            self.decisions = dec
            self.dpos = 0
            self.new_alts = []
            self.nondet_log = []
            self.steps = 0
            self.cpos = 0
            self.trace = []
            self.depth = 0
            self.path_reset()
            self.solver.push()
            try:
                harness(self)
                self.stats['paths'] += 1
                sig = hash(tuple(self.trace))
                if sig not in self.signatures:
                    self.signatures.add(sig)
                    if len(self.samples) < 6 and self.concrete is None:
                        self.samples.append(dict(trace=list(self.trace), witness=[[n, x] for n, x in (self.current_model() or [])]))
            except Infeasible:
                self.stats['infeasible'] += 1
            except SplitPoint:
                pass
            except Violation as v:
                self.stats['paths'] += 1
                v.decisions = list(self.decisions[:self.dpos])
                v.trace = list(self.trace)
                violations.append(v)
                if stop_at_first and (stop_msg is None or v.msg == stop_msg):
                    self.solver.pop()
                    self.solver.push()
                    return violations
            finally:
                self.solver.pop()
            work.extend(self.new_alts)
        return violations

    def path_reset(self):
        """per-path state of library models (clock etc.)"""
        self.clock_ns = None
        self.path_state = {}

    def check_sat(self, *conds):
        t = time.time()
        self.stats['solver_calls'] += 1
        r = self.solver.check(*conds)
        self.stats['solver_s'] += time.time() - t
        if r == z3.unknown:
            raise Inconclusive('solver returned unknown')
        return r == z3.sat

    def choose(self, n, conds=None):
        if self.dpos < len(self.decisions):
            k = self.decisions[self.dpos]
            self.dpos += 1
            if conds is not None and conds[k] is not True:
                self.solver.add(conds[k])
            return k
        if self.split_depth is not None and self.dpos >= self.split_depth:
            self.work_items.append(list(self.decisions[:self.dpos]))
            raise SplitPoint()
        feas = []
        for k in range(n):
            c = True if conds is None else conds[k]
            if c is False:
                continue
            if c is True or self.check_sat(c):
                feas.append(k)
        if not feas:
            raise Infeasible()
        prefix = self.decisions[:self.dpos]
        for k in feas[1:]:
            self.new_alts.append(prefix + [k])
        k = feas[0]
        self.decisions = prefix + [k]
        self.dpos += 1
        if conds is not None and conds[k] is not True:
            self.solver.add(conds[k])
        return k

    def branch(self, cond):
        """fork on a boolean; returns python bool"""
        if isinstance(cond, bool):
            return cond
        cond = z3.simplify(cond)
        if z3.is_true(cond):
            return True
        if z3.is_false(cond):
            return False
        return self.choose(2, [z3.Not(cond), cond]) == 1

    def assume(self, cond):
        if isinstance(cond, bool):
            if not cond:
                raise Infeasible()
            return
        self.solver.add(cond)
        if not self.check_sat():
            raise Infeasible()

    def require(self, cond, kind, msg):
        self.stats['vcs'] += 1
        if isinstance(cond, bool):
            if not cond:
                raise Violation(kind, msg, self.current_model())
            return
        if self.check_sat(z3.Not(cond)):
            m = self.solver.model()
            raise Violation(kind, msg, self.extract(m))
        self.solver.add(cond)

    def current_model(self):
        if self.check_sat():
            return self.extract(self.solver.model())
        return None

    def extract(self, m):
        out = []
        for name, var in self.nondet_log:
            if isinstance(var, int):
                out.append((name, var))
            else:
                v = m.eval(var, model_completion=True)
                out.append((name, v.as_long() if z3.is_bv_value(v) else (1 if z3.is_true(v) else 0)))
        return out

    def sym(self, name, width, internal=False):
        """fresh solver variable; harness-level ones are logged for replay, internal (model) ones are not"""
        self.fresh += 1
        v = z3.BitVec('%s!%d' % (name, self.fresh), width)
        if not internal:
            self.nondet_log.append((name, v))
        return v

    # ------------------------------------------------------------------ values
    def veq(self, a, b):
        """structural equality -> bool | z3 Bool"""
        if isinstance(a, Int):
            if a.conc and b.conc:
                return a.v == b.v
            return a.z() == b.z()
        if isinstance(a, bool) or z3.is_bool(a) if not isinstance(a, (Adt, Seq, Unit, Ptr)) else False:
            if isinstance(a, bool) and isinstance(b, bool):
                return a == b
            return self.to_z3bool(a) == self.to_z3bool(b)
        if isinstance(a, Adt):
            if not isinstance(b, Adt) or a.variant != b.variant or len(a.fields) != len(b.fields):
                return False
            return b_and(*[self.veq(x, y) for x, y in zip(a.fields, b.fields)])
        if isinstance(a, Seq):
            if len(a.fields) != len(b.fields):
                return False
            return b_and(*[self.veq(x, y) for x, y in zip(a.fields, b.fields)])
        if isinstance(a, Unit):
            return True
        if isinstance(a, Ptr):
            return self.veq(self.load(a), self.load(b))
        if hasattr(a, 'eq_model'):
            return a.eq_model(self, b)
        if a is b:
            return True
        raise Inconclusive('veq on %r / %r' % (type(a), type(b)))

    def to_z3bool(self, c):
        return z3.BoolVal(c) if isinstance(c, bool) else c

    def int_type(self, ty):
        t = INT_TYPES.get(ty.strip())
        if t is None:
            raise Inconclusive('not an integer type: ' + ty)
        return t

    # ------------------------------------------------------------------ memory
    def load(self, p):
        """read through a pointer (whole pointee; for slices a Seq of the window)"""
        v = self.read(p.cell, p.path)
        if p.win is not None:
            s, n = p.win
            return Seq(v.fields[s:s + n], 'slice')
        return v

    def store(self, p, val):
        if p.win is not None:
            s, n = p.win
            base = self.read(p.cell, p.path)
            assert len(val.fields) == n
            f = list(base.fields)
            f[s:s + n] = val.fields
            val = type(base)(f, base.kind) if isinstance(base, Seq) else base.with_fields(f)
        self.write(p.cell, p.path, val)

    def read(self, cell, path):
        v = cell.val
        for i in path:
            if isinstance(v, Extern):
                return v
            v = v.fields[i]
        return v

    def write(self, cell, path, val):
        if not path:
            cell.val = val
            return

        def upd(v, path):
            if not path:
                return val
            i = path[0]
            if isinstance(v, Adt) and i >= len(v.fields) and v.ty.startswith('{'):
                # coroutine state: saved locals live in variant fields beyond the captured upvars
                v = Adt(v.ty, v.variant, tuple(v.fields) + (None,) * (i + 1 - len(v.fields)))
            return v.with_field(i, upd(v.fields[i], path[1:]))
        cell.val = upd(cell.val, path)

    # ------------------------------------------------------------------ places
    def eval_place(self, place, fr):
        """-> (cell, path, win)"""
        local, proj = place
        cell = fr.cell(local)
        path = ()
        win = None
        variant_base = None
        for p in proj:
            k = p[0]
            if k == 'field':
                if variant_base is not None:
                    # coroutine state: the saved locals of suspension point N live in their own storage,
                    # distinct from the captured upvars (`.i` without downcast) and from other variants
                    path = path + (variant_base + p[1],)
                    variant_base = None
                else:
                    path = path + (p[1],)
            elif k == 'downcast':
                variant_base = None
                if p[1].startswith('variant#'):
                    variant_base = 64 + 64 * int(p[1][8:])
            elif k == 'deref':
                ptr = self.read(cell, path)
                if not isinstance(ptr, Ptr):
                    raise Inconclusive('deref of non-pointer %r in %s' % (ptr, fr.body.name))
                cell, path, win = ptr.cell, ptr.path, ptr.win
            elif k == 'index':
                idx = self.read(fr.cell(p[1]), ())
                seq = self.read(cell, path)
                n = len(seq.fields) if win is None else win[1]
                base = 0 if win is None else win[0]
                if idx.conc:
                    i = idx.v
                else:
                    # symbolic index used as a place: fork on its value
                    i = self.choose(n, [idx.z() == z3.BitVecVal(j, idx.w) for j in range(n)])
                path = path + (base + i,)
                win = None
            elif k == 'cindex':
                seq = self.read(cell, path)
                n = len(seq.fields) if win is None else win[1]
                base = 0 if win is None else win[0]
                i = (n - p[1]) if p[3] else p[1]
                path = path + (base + i,)
                win = None
            elif k == 'subslice':
                seq = self.read(cell, path)
                n = len(seq.fields) if win is None else win[1]
                base = 0 if win is None else win[0]
                frm = p[1]
                to = (n - p[2]) if p[3] else p[2]
                win = (base + frm, to - frm)
            else:
                raise Inconclusive('projection ' + k)
        return cell, path, win

    def read_place(self, place, fr):
        cell, path, win = self.eval_place(place, fr)
        v = self.read(cell, path)
        if win is not None:
            return Seq(v.fields[win[0]:win[0] + win[1]], 'slice')
        return v

    def place_type(self, place, fr):
        local, proj = place
        ty = fr.body.locals[local]
        for p in proj:
            if p[0] == 'field':
                ty = p[2]
            elif p[0] == 'deref':
                ty = re.sub(r"^(&(?:'\w+ )?(?:mut )?|\*const |\*mut |std::boxed::Box<)", '', ty)
            elif p[0] in ('index', 'cindex'):
                m = re.match(r'^\[(.*?)(; .*)?\]$', ty)
                ty = m.group(1) if m else ty
        return ty

    # ------------------------------------------------------------------ operands
    def eval_const(self, text):
        c = self._const_cache.get(text)
        if c is not None:
            return c[0]
        v = self._eval_const(text)
        if isinstance(v, Adt) and '@@' in v.ty:
            return v            # a macro-generated closure resolved relative to the current body: not cacheable by text
        # immutable, allocation-free constants are computed once
        if isinstance(v, (bool, Int, Unit, FnItem, Extern)) or (isinstance(v, Adt) and not v.fields):
            self._const_cache[text] = (v,)
        return v

    def _eval_const(self, text):
        if text == 'true':
            return True
        if text == 'false':
            return False
        if text == '()':
            return UNIT
        m = re.fullmatch(r'(-?\d+)_(\w+)', text)
        if m:
            w, s = self.int_type(m.group(2))
            return Int(int(m.group(1)), w, s)
        m = re.fullmatch(r"'(.)'", text)
        if m:
            return Int(ord(m.group(1)), 32, False)
        m = re.fullmatch(r'(?:core::num::<impl )?([ui](?:8|16|32|64|128|size))>?::(MIN|MAX|BITS)', text)
        if m:
            w, sg = INT_TYPES[m.group(1)]
            if m.group(2) == 'BITS':
                return Int(w, 32, False)
            if m.group(2) == 'MAX':
                return Int((1 << (w - 1)) - 1 if sg else (1 << w) - 1, w, sg)
            return Int(-(1 << (w - 1)) if sg else 0, w, sg)
        if text.startswith('b"') or text.startswith('"'):
            return self.bytes_literal(text)
        m = re.fullmatch(r'ZeroSized: (\{(?:closure|coroutine)@.*\})', text, re.S)
        if m:
            return Adt(self.zero_sized_closure_type(mir.normalize_span(m.group(1))), 0, ())
        if text.startswith('ZeroSized: '):
            return FnItem(text[len('ZeroSized: '):])
        if text in self.bodies:
            return self.eval_const_body(text)
        m = re.fullmatch(r'(.*?)((?:::\{closure#\d+\})*)::promoted\[(\d+)\]', text, re.S)
        if m:
            fn = self.resolve(m.group(1))
            if fn is not None:
                name = '%s%s::promoted[%s]' % (fn, m.group(2), m.group(3))
                if name in self.bodies:
                    return self.eval_const_body(name)
            raise Inconclusive('cannot resolve promoted constant ' + text)
        m = re.fullmatch(r'(.*?)((?:::\{closure#\d+\})+)::(\w+)', text, re.S)
        if m:
            # item declared inside a closure / async body (e.g. tokio::select!'s `BRANCHES`)
            fn = self.resolve(m.group(1))
            if fn is not None and (fn + m.group(2) + '::' + m.group(3)) in self.bodies:
                return self.eval_const_body(fn + m.group(2) + '::' + m.group(3))
        r = self.resolve(text)
        if r and self.bodies[r].kind in ('const', 'static'):
            return self.eval_const_body(r)
        if r:
            return FnItem(text)
        m = re.fullmatch(r'\{alloc\d+: (.*)\}', text)
        if m:
            return Extern(text)
        # enum unit variant of a known ADT:  path::Variant
        p = mir.strip_generics(text)
        so = self._select_out(p)
        if so is not None:
            return Adt(so[0], so[1], ())
        mv = re.fullmatch(r'(.*)::(\w+)\((.*)\)', p, re.S)
        if mv and self.adts.has(mv.group(1)):
            # constant enum value with one payload, e.g. `Result::<Infallible, ()>::Err(())`
            return Adt(base_ty(mv.group(1)), self.adts.variant_index(mv.group(1), mv.group(2)), [self.eval_const(mv.group(3))])
        if '::' in p:
            ty, vname = p.rsplit('::', 1)
            if self.adts.has(ty):
                return Adt(base_ty(ty), self.adts.variant_index(ty, vname), ())
        return Extern(text)

    def eval_const_body(self, name):
        body = self.bodies[name]
        v = self.call_body(body, [])
        return v

    def bytes_literal(self, text):
        raw = text[2:-1] if text.startswith('b"') else text[1:-1]
        out = []
        i = 0
        while i < len(raw):
            c = raw[i]
            if c == '\\':
                n = raw[i + 1]
                if n == 'n':
                    out.append(10); i += 2
                elif n == 't':
                    out.append(9); i += 2
                elif n == 'r':
                    out.append(13); i += 2
                elif n == '0':
                    out.append(0); i += 2
                elif n == 'x':
                    out.append(int(raw[i + 2:i + 4], 16)); i += 4
                elif n in '\\"\'':
                    out.append(ord(n)); i += 2
                else:
                    raise Inconclusive('escape in literal ' + text)
            else:
                out.extend(c.encode('utf8'))
                i += 1
        cell = Cell('lit', Seq([Int(b, 8) for b in out], 'lit'))
        return Ptr(cell, (), (0, len(out)))

    def eval_operand(self, op, fr):
        k = op[0]
        if k == 'copy' or k == 'move':
            return self.read_place(op[1], fr)
        if k == 'const':
            return self.eval_const(op[1])
        if k == 'fnitem':
            return FnItem(op[1])
        raise Inconclusive('operand ' + repr(op))

    # ------------------------------------------------------------------ rvalues
    def eval_rvalue(self, rv, fr, dest_ty):
        k = rv[0]
        if k == 'use':
            return self.eval_operand(rv[1], fr)
        if k == 'ref':
            cell, path, win = self.eval_place(rv[1], fr)
            return Ptr(cell, path, win)
        if k == 'discr':
            v = self.read_place(rv[1], fr)
            return self.discriminant(v)
        if k == 'binop':
            a = self.eval_operand(rv[2], fr)
            b = self.eval_operand(rv[3], fr)
            return self.binop(rv[1], a, b)
        if k == 'unop':
            a = self.eval_operand(rv[2], fr)
            return self.unop(rv[1], a)
        if k == 'cast':
            return self.cast(rv[1], rv[2], rv[3], fr)
        if k == 'agg_tuple':
            return Tup([self.eval_operand(o, fr) for o in rv[1]])
        if k == 'agg_array':
            return Seq([self.eval_operand(o, fr) for o in rv[1]], 'array')
        if k == 'repeat':
            v = self.eval_operand(rv[1], fr)
            n = self.eval_const(rv[2]) if not rv[2].isdigit() else Int(int(rv[2]), 64)
            return Seq([v] * n.v, 'array')
        if k == 'agg_adt':
            return self.aggregate(rv[1], rv[2], fr, dest_ty)
        if k == 'agg_closure':
            ops = None
            if self.closure_operands is not None:
                ops = self.closure_operands.get((rv[1], self.cur_lhs), 0)
                if ops is None:
                    raise Inconclusive('ambiguous closure captures for ' + rv[1])
                if ops == 0:
                    ops = None
            if ops is None:
                ops = [o for _, o in rv[2]]
            return Adt(self.closure_type(rv[1]), 0, [self.eval_operand(o, fr) for o in ops])
        if k == 'len':
            v = self.read_place(rv[1], fr)
            return usize(len(v.fields))
        if k == 'cfd':
            return self.read_place(rv[1], fr)
        raise Inconclusive('rvalue ' + repr(rv)[:200])

    def discriminant(self, v):
        if isinstance(v, Adt):
            try:
                vs = self.adts.variants(v.ty)
                return Int(vs[v.variant][2], 64, True)
            except KeyError:
                t = v.ty
                last = t.rsplit('::', 1)[1] if '::' in t else ''
                if '::' in t and t.rsplit('::', 1)[0].split('::')[-1][:1].isupper() and (last[:1].isupper() or re.fullmatch(r'_\d+', last)):
                    # `Enum::Variant` of an enum whose layout is unknown: never guess its discriminant
                    raise Inconclusive('discriminant of an enum without a known layout: ' + t)
                return Int(v.variant, 64, True)
        if isinstance(v, Extern):
            return Int(0, 64, True)
        if hasattr(v, 'discriminant'):
            return Int(v.discriminant(), 64, True)
        raise Inconclusive('discriminant of %r' % (v,))

    def aggregate(self, path, fields, fr, dest_ty):
        key = (path, dest_ty, self.cur_body.name.split('::', 1)[0] if getattr(self, 'cur_body', None) is not None else None)
        info = self._agg_cache.get(key)
        if info is None:
            info = self._agg_cache[key] = self._aggregate_info(path, dest_ty)
        ty, vi, names = info
        if ty is None:
            # unknown external struct: keep positional / named fields as given
            vals = [] if fields is None else [self.eval_operand(o, fr) for _, o in fields['named']] if 'named' in fields else [self.eval_operand(o, fr) for o in fields['pos']]
            return Adt(vi, 0, vals)
        if fields is None:
            return Adt(ty, vi, ())
        if 'named' in fields:
            vals = {n: self.eval_operand(o, fr) for n, o in fields['named']}
            return Adt(ty, vi, [vals[n] for n in names])
        if names is None:
            return Adt(ty, vi, [self.eval_operand(o, fr) for o in fields['pos']])
        return Adt(ty, vi, [self.eval_operand(o, fr) for o in fields['pos']])

    def _select_out(self, p):
        """tokio::select!'s local `enum Out { _0(..), _1(..), .., Disabled }`: (type, variant index) or None"""
        m = re.fullmatch(r'(.*::__tokio_select_util::Out)::(?:_(\d+)|(Disabled))', p, re.S)
        if not m:
            return None
        if m.group(2) is not None:
            return (m.group(1), int(m.group(2)))
        fn = self.resolve(m.group(1).split('::{closure#', 1)[0])
        n = 0
        if fn is not None:
            pre = fn + m.group(1)[len(m.group(1).split('::{closure#', 1)[0]):] + '::_'
            n = len({name for name in self.bodies if name.startswith(pre)})
        if n == 0:
            raise Inconclusive('cannot size tokio::select! output enum ' + p)
        return (m.group(1), n)

    def _aggregate_info(self, path, dest_ty):
        p = mir.strip_generics(path)
        so = self._select_out(p)
        if so is not None:
            return (so[0], so[1], None)
        cur = getattr(self, 'cur_body', None)
        if cur is not None:
            for pre in getattr(self, 'dep_crates', ()):
                if cur.name.startswith(pre) and not p.startswith(('std::', 'core::', 'alloc::')) and '::' in p:
                    head = p.split('::')[0]
                    if head not in ('multihash', 'multiaddr', 'bytes'):
                        return (None, pre + p, None)
        # which ADT?  prefer the declared destination type
        ty = base_ty(dest_ty) if dest_ty is not None and self.adts.has(dest_ty) else None
        vname = p.rsplit('::', 1)[-1]
        if ty is None:
            if self.adts.has(p):
                ty = base_ty(p)
            elif '::' in p and self.adts.has(p.rsplit('::', 1)[0]):
                ty = base_ty(p.rsplit('::', 1)[0])
            else:
                return (None, p, None)
        vs = self.adts.variants(ty)
        vi = None
        for i, (n, fl, d) in enumerate(vs):
            if n == vname:
                vi = i
        if vi is None:
            if len(vs) == 1:
                vi = 0
            else:
                raise Inconclusive('variant %s of %s' % (vname, ty))
        return (ty, vi, vs[vi][1])

    def binop(self, op, a, b):
        if op in ('Eq', 'Ne'):
            e = self.veq(a, b)
            return e if op == 'Eq' else b_not(e)
        if isinstance(a, bool) or (not isinstance(a, Int) and z3.is_bool(a)):
            za, zb = self.to_z3bool(a), self.to_z3bool(b)
            if op == 'BitAnd':
                return b_and(a, b)
            if op == 'BitOr':
                return b_or(a, b)
            if op == 'BitXor':
                return z3.Xor(za, zb) if not (isinstance(a, bool) and isinstance(b, bool)) else (a != b)
            raise Inconclusive('bool binop ' + op)
        if not isinstance(a, Int) or not isinstance(b, Int):
            raise Inconclusive('binop %s on %r, %r' % (op, a, b))
        w, s = a.w, a.s
        mask = (1 << w) - 1
        conc = a.conc and b.conc
        if op in ('Lt', 'Le', 'Gt', 'Ge'):
            if conc:
                x, y = a.sval(), b.sval()
                return {'Lt': x < y, 'Le': x <= y, 'Gt': x > y, 'Ge': x >= y}[op]
            za, zb = a.z(), b.z()
            if s:
                return {'Lt': za < zb, 'Le': za <= zb, 'Gt': za > zb, 'Ge': za >= zb}[op]
            return {'Lt': z3.ULT, 'Le': z3.ULE, 'Gt': z3.UGT, 'Ge': z3.UGE}[op](za, zb)
        if op == 'Cmp':
            lt = self.binop('Lt', a, b)
            eq = self.veq(a, b)
            if isinstance(lt, bool) and isinstance(eq, bool):
                return Adt('std::cmp::Ordering', 0 if lt else (1 if eq else 2), ())
            k = self.choose(3, [lt, eq, b_and(b_not(lt), b_not(eq))])
            return Adt('std::cmp::Ordering', k, ())
        if op in ('Add', 'Sub', 'Mul', 'AddUnchecked', 'SubUnchecked', 'MulUnchecked'):
            o = op[:3]
            if conc:
                x, y = a.v, b.v
                return Int({'Add': x + y, 'Sub': x - y, 'Mul': x * y}[o], w, s)
            za, zb = a.z(), b.z()
            return Int({'Add': za + zb, 'Sub': za - zb, 'Mul': za * zb}[o], w, s)
        if op in ('AddWithOverflow', 'SubWithOverflow', 'MulWithOverflow'):
            o = op[:3]
            if conc:
                x, y = a.sval(), b.sval()
                r = {'Add': x + y, 'Sub': x - y, 'Mul': x * y}[o]
                lo, hi = (-(1 << (w - 1)), (1 << (w - 1)) - 1) if s else (0, mask)
                return Tup([Int(r, w, s), not (lo <= r <= hi)])
            za, zb = a.z(), b.z()
            if o == 'Add':
                r = za + zb
                ov = z3.Not(z3.BVAddNoOverflow(za, zb, s)) if not s else z3.Or(z3.Not(z3.BVAddNoOverflow(za, zb, True)), z3.Not(z3.BVAddNoUnderflow(za, zb)))
            elif o == 'Sub':
                r = za - zb
                ov = z3.Not(z3.BVSubNoUnderflow(za, zb, s)) if not s else z3.Or(z3.Not(z3.BVSubNoOverflow(za, zb)), z3.Not(z3.BVSubNoUnderflow(za, zb, True)))
            else:
                r = za * zb
                ov = z3.Or(z3.Not(z3.BVMulNoOverflow(za, zb, s)), z3.Not(z3.BVMulNoUnderflow(za, zb))) if s else z3.Not(z3.BVMulNoOverflow(za, zb, False))
            return Tup([Int(r, w, s), ov])
        if op in ('Div', 'Rem'):
            if conc:
                x, y = a.sval(), b.sval()
                if y == 0:
                    raise Violation('panic', 'division by zero', self.current_model())
                q = abs(x) // abs(y) * (1 if (x >= 0) == (y >= 0) else -1)
                return Int(q if op == 'Div' else x - q * y, w, s)
            za, zb = a.z(), b.z()
            if s:
                return Int(za / zb if op == 'Div' else z3.SRem(za, zb), w, s)
            return Int(z3.UDiv(za, zb) if op == 'Div' else z3.URem(za, zb), w, s)
        if op in ('BitAnd', 'BitOr', 'BitXor'):
            if conc:
                return Int({'BitAnd': a.v & b.v, 'BitOr': a.v | b.v, 'BitXor': a.v ^ b.v}[op], w, s)
            za, zb = a.z(), b.z()
            return Int({'BitAnd': za & zb, 'BitOr': za | zb, 'BitXor': za ^ zb}[op], w, s)
        if op in ('Shl', 'Shr', 'ShlUnchecked', 'ShrUnchecked'):
            o = op[:3]
            if conc:
                sh = b.v % w
                if o == 'Shl':
                    return Int(a.v << sh, w, s)
                return Int((a.sval() >> sh) if s else (a.v >> sh), w, s)
            zb = b.z()
            if b.w != w:
                zb = z3.ZeroExt(w - b.w, zb) if b.w < w else z3.Extract(w - 1, 0, zb)
            zb = z3.URem(zb, z3.BitVecVal(w, w))
            za = a.z()
            if o == 'Shl':
                return Int(za << zb, w, s)
            return Int((za >> zb) if s else z3.LShR(za, zb), w, s)
        raise Inconclusive('binop ' + op)

    def unop(self, op, a):
        if op == 'Not':
            if isinstance(a, Int):
                return Int(~a.v if a.conc else ~a.z(), a.w, a.s)
            return b_not(a)
        if op == 'Neg':
            return Int(-a.v if a.conc else -a.z(), a.w, a.s)
        if op == 'PtrMetadata':
            if isinstance(a, Ptr):
                if a.win is not None:
                    return usize(a.win[1])
                v = self.load(a)
                if isinstance(v, Seq):
                    return usize(len(v.fields))
                return UNIT
            raise Inconclusive('PtrMetadata of %r' % (a,))
        raise Inconclusive('unop ' + op)

    def cast(self, operand, ty, kind, fr):
        if operand[0] == 'fnitem':
            return self.eval_operand(operand, fr)
        v = self.eval_operand(operand, fr)
        if kind == 'IntToInt':
            w, s = self.int_type(ty)
            if isinstance(v, bool) or (not isinstance(v, Int) and z3.is_bool(v)):
                if isinstance(v, bool):
                    return Int(1 if v else 0, w, s)
                return Int(z3.If(v, z3.BitVecVal(1, w), z3.BitVecVal(0, w)), w, s)
            if isinstance(v, Adt):      # fieldless enum as integer
                return Int(self.discriminant(v).v, w, s)
            if v.conc:
                return Int(v.sval(), w, s)
            z = v.z()
            if w < v.w:
                z = z3.Extract(w - 1, 0, z)
            elif w > v.w:
                z = z3.SignExt(w - v.w, z) if v.s else z3.ZeroExt(w - v.w, z)
            return Int(z, w, s)
        if kind in ('PointerExposeProvenance', 'PointerWithExposedProvenance', 'FnPtrToPtr'):
            return v
        if kind in ('PointerCoercion', 'Transmute', 'Subtype', 'PtrToPtr'):
            # unsizing &[T; N] -> &[T] gives the pointer a window
            if isinstance(v, Ptr) and v.win is None and ty.strip().endswith(']') and '[' in ty:
                tgt = self.load(v)
                if isinstance(tgt, Seq):
                    return Ptr(v.cell, v.path, (0, len(tgt.fields)))
            return v
        raise Inconclusive('cast kind ' + kind)

    # ------------------------------------------------------------------ execution
    def call_body(self, body, args):
        st = self.stats['funcs']
        st[body.name] = st.get(body.name, 0) + 1
        self.depth += 1
        if self.depth > self.stats['max_depth']:
            self.stats['max_depth'] = self.depth
        if self.depth > 200:
            raise Inconclusive('call depth')
        fr = Frame(body)
        prev_body = getattr(self, 'cur_body', None)
        self.cur_body = body
        for (idx, _), v in zip(body.args, args):
            fr.cell(idx).val = v
        blocks = body.parsed()
        bb = 0
        try:
            while True:
                stmts, term = blocks[bb]
                for s in stmts:
                    self.cur_stmt = (body.name, bb, s[3] if s[0] == 'assign' else s)
                    if s[0] == 'assign':
                        _, place, rv, _txt = s
                        self.cur_lhs = _txt
                        ty = self.place_type(place, fr) if rv[0] in ('agg_adt',) else None
                        v = self.eval_rvalue(rv, fr, ty)
                        cell, path, win = self.eval_place(place, fr)
                        if win is not None:
                            self.store(Ptr(cell, path, win), v)
                        else:
                            self.write(cell, path, v)
                    elif s[0] == 'setdiscr':
                        cell, path, win = self.eval_place(s[1], fr)
                        old = self.read(cell, path)
                        self.write(cell, path, Adt(old.ty, s[2], old.fields))
                self.steps += len(stmts) + 1
                self.stats['stmts'] += len(stmts) + 1
                if self.steps > self.max_steps:
                    raise Inconclusive('step bound exceeded (unwinding failure)')
                self.cur_stmt = (body.name, bb, body.raw_blocks[bb][1][:200])
                nxt = self.exec_term(term, fr)
                if nxt is None:
                    return fr.cell(0).val if 0 in fr.cells and fr.cells[0].val is not None else UNIT
                bb = nxt
        finally:
            self.depth -= 1
            self.cur_body = prev_body

    def exec_term(self, t, fr):
        k = t[0]
        if k == 'goto':
            return t[1]
        if k == 'return':
            return None
        if k == 'switch':
            v = self.eval_operand(t[1], fr)
            cases, otherwise = t[2], t[3]
            if isinstance(v, bool):
                v = Int(1 if v else 0, 1)
            elif not isinstance(v, Int):
                v = Int(z3.If(v, z3.BitVecVal(1, 1), z3.BitVecVal(0, 1)), 1)
            if v.conc:
                val = v.v
                for c, bb in cases:
                    if (c & ((1 << v.w) - 1)) == val:
                        return bb
                if otherwise is None:
                    raise Inconclusive('switch without matching arm')
                return otherwise
            z = v.z()
            conds = [z == z3.BitVecVal(c, v.w) for c, _ in cases]
            targets = [bb for _, bb in cases]
            if otherwise is not None:
                conds.append(z3.And(*[z3.Not(c) for c in conds]) if conds else True)
                targets.append(otherwise)
            return targets[self.choose(len(targets), conds)]
        if k == 'call':
            _, dest, callee, args, ret = t
            argv = [self.eval_operand(a, fr) for a in args]
            dest_ty = self.place_type(dest, fr) if dest is not None else None
            if not isinstance(callee, str):
                f = self.eval_operand(callee, fr)
                r = self.call_value(f, argv, dest_ty)
            else:
                r = self.call(callee, argv, dest_ty)
            if ret is None:
                raise Violation('panic', 'diverging call returned: ' + str(callee)[:80], self.current_model())
            if dest is not None:
                cell, path, win = self.eval_place(dest, fr)
                self.write(cell, path, r)
            return ret
        if k == 'drop':
            self.do_drop(t[1], fr)
            return t[2]
        if k == 'assert':
            c = self.eval_operand(t[1], fr)
            if not t[2]:
                c = b_not(c)
            self.require(c, 'panic', 'MIR assert failed: %s in %s' % (t[3][:80], fr.body.name))
            return t[4]
        if k == 'unreachable':
            raise Violation('unreachable', 'reached `unreachable` in ' + fr.body.name, self.current_model())
        if k == 'resume':
            raise Inconclusive('unwinding path executed in ' + fr.body.name)
        raise Inconclusive('terminator ' + k)

    def do_drop(self, place, fr):
        # values are immutable and there is no allocator to return memory to; Drop impls of
        # crate types with observable effects are run if a body exists.
        try:
            v = self.read_place(place, fr)
        except Exception:
            return
        self.drop_value(v)

    def drop_value(self, v):
        if isinstance(v, Adt) and v.ty and v.ty != '()':
            name = self.drop_impl(v.ty)
            if name:
                cell = Cell('dropped', v)
                self.call_body(self.bodies[name], [Ptr(cell)])
                v = cell.val
            fields = v.fields
            if v.ty.startswith(('{async', '{coroutine')):
                # a coroutine owns different things in different states: its captured arguments before the first poll,
                # the locals saved at the suspension point while suspended, nothing once it has returned or panicked
                if v.variant in (1, 2):
                    fields = ()
                elif v.variant >= 3:
                    lo = 64 + 64 * v.variant
                    fields = v.fields[lo:lo + 64]
                else:
                    fields = v.fields[:64]
            for f in fields:
                if isinstance(f, (Adt, Seq)) or hasattr(f, 'on_drop'):
                    self.drop_value(f)
        elif isinstance(v, Seq):
            for f in v.fields:
                if isinstance(f, (Adt, Seq)) or hasattr(f, 'on_drop'):
                    self.drop_value(f)
        elif hasattr(v, 'on_drop'):
            v.on_drop(self)

    def drop_impl(self, ty):
        self.build_index()
        return self.method_index.get('<%s as std::ops::Drop>::drop' % ty)

    # ------------------------------------------------------------------ calls
    def add_model(self, pattern, fn):
        self.models.append((re.compile(pattern), fn))
        self.model_cache.clear()

    def find_model(self, callee):
        m = self.model_cache.get(callee, 0)
        if m != 0:
            return m
        found = None
        for rx, fn in self.models:
            if rx.fullmatch(callee):
                found = fn
                break
        self.model_cache[callee] = found
        return found

    CORE_RX = re.compile(r'\bcore::(iter|option|result|ops|cmp|convert|mem|clone|default|fmt|slice::IterMut|slice::Iter)\b')

    def call(self, callee, argv, dest_ty):
        self.stats['calls'] += 1
        if 'core::' in callee:
            callee = self.CORE_RX.sub(r'std::\1', callee)
        fn = self.find_model(callee)
        if fn is None and (self.crate + '::') in callee:
            # a downstream crate (the harness) names litep2p items with the crate prefix; the models do not
            short = callee.replace(self.crate + '::', '')
            fn = self.find_model(short)
            if fn is not None:
                callee = short
        if fn is not None:
            st = self.stats['models']
            st[callee] = st.get(callee, 0) + 1
            return fn(self, argv, dest_ty, callee)
        name = self.resolve(callee)
        if name is not None:
            return self.call_body(self.bodies[name], argv)
        # trait objects: `<dyn Trait as Trait>::method(receiver, ..)` -> the run-time type's impl
        if callee.startswith('<dyn ') and argv:
            j = mir.match_bracket(callee, 0)
            inner = callee[1:j]
            k = mir._top_level_find(inner, ' as ')
            trait = inner[k + 4:]
            recv = argv[0]
            if isinstance(recv, Adt) and recv.ty == 'std::pin::Pin':
                recv = recv.fields[0]
            rt_ty = self.runtime_type(recv)
            if rt_ty is None:
                raise Inconclusive('dyn call on unknown run-time type: ' + callee[:80])
            return self.call('<%s as %s>%s' % (rt_ty, trait, callee[j + 1:]), argv, dest_ty)
        # generic MIR: `<T as Trait>::method` with T a type parameter -> dispatch on the run-time value
        m = re.fullmatch(r'<([A-Z]\w*) as (.*)>::(\w+)', callee, re.S)
        if m and argv:
            probe = argv[0]
            if isinstance(probe, Adt) and probe.ty == 'std::pin::Pin':
                probe = probe.fields[0]         # `self: Pin<&mut R>`: dispatch on R
            rt_ty = self.runtime_type(probe)
            if rt_ty is not None:
                if probe is not argv[0]:
                    return self.call('<%s as %s>::%s' % (rt_ty, m.group(2), m.group(3)), argv, dest_ty)
                # the type parameter may itself be a reference (`U = &Key<T>`): the blanket impls for `&T`
                # forward to `T`, so peel references down to one level
                recv = argv[0]
                while isinstance(recv, Ptr) and isinstance(self.load(recv), Ptr):
                    recv = self.load(recv)
                return self.call('<%s as %s>::%s' % (rt_ty, m.group(2), m.group(3)), [recv] + list(argv[1:]), dest_ty)
        # closures / fn items through Fn* traits
        m = re.fullmatch(r'<(.*) as std::ops::(Fn|FnMut|FnOnce)<.*>>::(call|call_mut|call_once)', callee, re.S)
        if m:
            args = list(argv[1].fields) if isinstance(argv[1], Adt) else [argv[1]]
            f = argv[0]
            target = self.load(f) if isinstance(f, Ptr) else f
            if target is None and m.group(1).startswith('{closure@'):
                # zero-sized (non-capturing) closure: MIR never initialises its local
                f = Adt(mir.normalize_span(m.group(1)), 0, ())
            return self.call_value(f, args, dest_ty)
        m = re.fullmatch(r'<(.*) as std::cmp::PartialEq(<.*>)?>::ne', callee, re.S)
        if m:
            return b_not(self.call('<%s as std::cmp::PartialEq%s>::eq' % (m.group(1), m.group(2) or ''), argv, dest_ty))
        m = re.fullmatch(r'<(.*) as std::cmp::PartialOrd(<.*>)?>::(lt|le|gt|ge)', callee, re.S)
        if m:
            o = self.call('<%s as std::cmp::PartialOrd%s>::partial_cmp' % (m.group(1), m.group(2) or ''), argv, None)
            if o.variant == 0:
                return False
            v = o.fields[0].variant      # 0 Less, 1 Equal, 2 Greater
            return {'lt': v == 0, 'le': v <= 1, 'gt': v == 2, 'ge': v >= 1}[m.group(3)]
        raise Inconclusive('no body or model for callee: ' + callee)

    def runtime_type(self, v):
        while isinstance(v, Ptr):
            v = self.load(v)
        if isinstance(v, Adt) and v.ty and v.ty != '()':
            return v.ty
        if isinstance(v, Int):
            for name, (w, s) in INT_TYPES.items():
                if w == v.w and s == v.s and name not in ('usize', 'isize', 'char'):
                    return name
        if isinstance(v, bool):
            return 'bool'
        if hasattr(v, 'rust_type'):
            return v.rust_type
        return None

    def call_value(self, f, args, dest_ty):
        """call a closure / fn item / fn pointer value"""
        if isinstance(f, Adt) and f.ty == 'Box':
            f = f.fields[0].fields[0]
        if isinstance(f, Ptr):
            tgt = self.load(f)
            if isinstance(tgt, Adt) and tgt.ty == 'Box':
                f = tgt.fields[0].fields[0]
        if isinstance(f, Ptr):
            inner = self.load(f)
            if isinstance(inner, Adt) and inner.ty.startswith('{'):
                body = self.closure_body(inner.ty)
                return self.call_body(body, [f] + list(args)) if body.args and body.args[0][1].startswith('&') else self.call_body(body, [inner] + list(args))
            f = inner
        if isinstance(f, FnItem):
            return self.call(f.name, list(args), dest_ty)
        if isinstance(f, Adt) and f.ty.startswith('{'):
            body = self.closure_body(f.ty)
            first = body.args[0][1] if body.args else ''
            if first.startswith('&'):
                cell = Cell('closure', f)
                return self.call_body(body, [Ptr(cell)] + list(args))
            return self.call_body(body, [f] + list(args))
        raise Inconclusive('call of value %r' % (f,))

    def _closure_index(self):
        if self.closure_bodies is None:
            self.closure_bodies = {}
            self.closure_dups = {}
            for name, b in self.bodies.items():
                if b.args and '{closure#' in name or '{closure@' in (b.args[0][1] if b.args else ''):
                    t = b.args[0][1] if b.args else ''
                    m = re.search(r'(\{(?:closure|coroutine|async [^{}]*)@?[^{}]*\})', t)
                    if m:
                        self.closure_bodies.setdefault(m.group(1), b)
                        self.closure_dups.setdefault(m.group(1), []).append(b)

    def closure_type(self, span):
        """run-time type of a closure created in the current body: the span, plus the body name when several closures
        share one span (closures written by a macro such as tokio::select!)"""
        self._closure_index()
        dups = self.closure_dups.get(span, ())
        if len(dups) > 1 and getattr(self, 'cur_body', None) is not None:
            pre = self.cur_body.name + '::{closure#'
            mine = [b for b in dups if b.name.startswith(pre) and '::' not in b.name[len(pre):]]
            if len(mine) == 1:
                return span + '@@' + mine[0].name
            raise Inconclusive('ambiguous macro-generated closure %s in %s' % (span, self.cur_body.name))
        return span

    def zero_sized_closure_type(self, span):
        """a non-capturing closure named only by its span: when a macro gave several closures the same span, take the one that
        belongs to the current body; siblings inside one body are accepted only if their bodies are identical up to string
        literals (prost-derive's error-context closures), anything else is inconclusive"""
        self._closure_index()
        dups = self.closure_dups.get(span, ())
        if len(dups) <= 1 or getattr(self, 'cur_body', None) is None:
            return span
        pre = self.cur_body.name + '::{closure#'
        mine = [b for b in dups if b.name.startswith(pre) and '::' not in b.name[len(pre):]]
        if len(mine) == 1:
            return span + '@@' + mine[0].name
        if len(mine) > 1:
            def shape(b):
                txt = repr(sorted((k, tuple(v[0]), v[1]) for k, v in b.raw_blocks.items()))
                return re.sub(r'const "[^"]*"', 'const ""', re.sub(r'\{closure#\d+\}', '{closure}', txt))
            if len({shape(b) for b in mine}) == 1:
                return span + '@@' + mine[0].name
            raise Inconclusive('ambiguous macro-generated closures %s in %s' % (span, self.cur_body.name))
        return span

    def closure_body(self, span):
        self._closure_index()
        if '@@' in span:
            return self.bodies[span.split('@@', 1)[1]]
        b = self.closure_bodies.get(span)
        if b is None and span.startswith('{coroutine@'):
            # `async {}` blocks: the value is printed as {coroutine@span}, the body's receiver as {async block@span}
            for kind in ('{async block@', '{async closure@'):
                b = self.closure_bodies.get(kind + span[len('{coroutine@'):])
                if b is not None:
                    return b
        if b is None and span.startswith('{coroutine@'):
            # `async fn`: the coroutine is created in the fn itself and its poll body is `<fn>::{closure#0}`, whose
            # receiver type is printed as `{async fn body of ..}` instead of the span
            if not getattr(self, '_coroutine_map', None):
                self._coroutine_map = {}
                for name, body in self.bodies.items():
                    if body.ret.startswith('{async fn body of') and (name + '::{closure#0}') in self.bodies:
                        for stmts, term in body.raw_blocks.values():
                            for st in stmts:
                                k = st.find('{coroutine@')
                                if k >= 0:
                                    j = mir.match_bracket(st, k)
                                    self._coroutine_map[mir.normalize_span(st[k:j + 1])] = self.bodies[name + '::{closure#0}']
            b = self._coroutine_map.get(span)
        if b is None:
            raise Inconclusive('no body for closure ' + span)
        return b

    def build_index(self):
        if self.method_index is not None:
            return
        idx = {}
        amb = set()
        deps = tuple(getattr(self, 'dep_crates', ()))
        for name, b in self.bodies.items():
            m = re.match(r'^(.*?)<impl at (.*?):(\d+):(\d+): \d+:\d+>::(\w+)$', name)
            if not m:
                continue
            modpath, file, line, col, meth = m.groups()
            dep = next((d for d in deps if name.startswith(d)), None)
            if dep is not None:
                # interpreted dependency: its inherent methods are only visible from inside that crate,
                # under the crate-prefixed key (no rustdoc table for it: the receiver / return type decides)
                cands = set()
                if b.args:
                    self_ty = re.sub(r"^(&(?:'\w+ )?(?:mut )?)", '', b.args[0][1])
                    cands.add(base_ty(self_ty))
                rb = base_ty(re.sub(r'^std::result::Result<(.*?), .*>$', r'\1', b.ret))
                if '::' in rb and not rb.startswith('std::'):
                    cands.add(rb)
                for ty in cands:
                    key = '%s%s::%s' % (dep, ty, meth)
                    if key in idx and idx[key] != name:
                        amb.add(key)
                    idx[key] = name
                continue
            keys = []
            span_key = '%s:%s:%s' % (file, line, col)
            cands = set()
            full = self.adts.impl_self.get(span_key)
            if full:
                cands.add(base_ty(full))
            else:
                # no rustdoc entry (e.g. impl on a foreign/primitive/generic type): fall back to the receiver type
                if b.args:
                    self_ty = re.sub(r"^(&(?:'\w+ )?(?:mut )?)", '', b.args[0][1])
                    self_ty = re.sub(r'^std::pin::Pin<&mut (.*)>$', r'\1', self_ty)
                    cands.add(base_ty(self_ty))
                rb = base_ty(b.ret)
                if ('::' in rb and not rb.startswith('std::')) or (name.startswith('harness::') and re.fullmatch(r'\w+', rb) and rb[0].isupper()):
                    cands.add(rb)
            for ty in cands:
                keys.append('%s::%s' % (ty, meth))
            for key in keys:
                if key in idx and idx[key] != name:
                    amb.add(key)
                idx[key] = name
        for a in amb:
            idx[a] = None
        self.method_index = idx
        self.impl_names = {}
        for name in self.bodies:
            if name.startswith(deps):
                continue
            m = re.match(r'^(.*?)<impl at (.*?):(\d+):(\d+): \d+:\d+>::(\w+)$', name)
            if m:
                self.impl_names.setdefault(m.group(5), []).append(name)

    def resolve(self, callee):
        in_harness = getattr(self, 'cur_body', None) is not None and self.cur_body.name.startswith('harness::')
        cur0 = getattr(self, 'cur_body', None)
        dep = next((p for p in getattr(self, 'dep_crates', ()) if cur0 is not None and cur0.name.startswith(p)), None)
        key = (in_harness, dep, callee)
        r = self.resolve_cache.get(key, 0)
        if r != 0:
            return r
        r = None
        if in_harness:
            for cand in ('harness::' + callee, 'harness::' + mir.strip_generics(callee)):
                if cand in self.bodies:
                    r = cand
                    break
        cur = getattr(self, 'cur_body', None)
        if r is None and cur is not None:
            for pre in getattr(self, 'dep_crates', ()):
                if cur.name.startswith(pre):
                    key = (pre, callee)
                    for cand in (pre + callee, pre + mir.strip_generics(callee)):
                        if cand in self.bodies:
                            r = cand
                            break
                    if r is None:
                        self.build_index()
                        r = self.method_index.get(pre + mir.strip_generics(callee))
        if r is None:
            r = self._resolve(callee)
        self.resolve_cache[key] = r
        return r

    def _norm_ty(self, t):
        t = t.strip()
        t = re.sub(r"&'\w+ ", '&', t)
        t = t.replace(self.crate + '::', '')
        if '<' not in t and not t.startswith('&'):
            return base_ty(t)
        return t

    @staticmethod
    def _short_sig(t):
        """'&'a path::Name<..>' -> '&Name' (lifetimes, paths and generic arguments dropped)"""
        t = re.sub(r"'\w+ ", '', t.strip())
        ref = ''
        while t.startswith('&'):
            ref += '&'
            t = t[1:].strip()
            if t.startswith('mut '):
                t = t[4:]
        return ref + base_ty(t).split('::')[-1]

    @staticmethod
    def _rd_sig(ty):
        """the same signature from a rustdoc JSON type"""
        ref = ''
        while isinstance(ty, dict) and 'borrowed_ref' in ty:
            ref += '&'
            ty = ty['borrowed_ref']['type']
        if isinstance(ty, dict):
            if 'resolved_path' in ty:
                return ref + ty['resolved_path'].get('path', ty['resolved_path'].get('name', '?')).split('::')[-1]
            if 'primitive' in ty:
                return ref + ty['primitive']
            if 'generic' in ty:
                return ref + ty['generic']
        return ref + '?'

    def _resolve(self, callee):
        if callee in self.bodies:
            return callee
        c = callee
        if c.startswith(self.crate + '::'):
            c = c[len(self.crate) + 2:]
            if c in self.bodies:
                return c
        self.build_index()
        plain = mir.strip_generics(c)
        if plain in self.bodies:
            return plain
        from .adts import ALIASES
        if ALIASES.get(plain) in self.bodies:       # re-exported free function
            return ALIASES[plain]
        # <T as Trait>::method   (T possibly with generics); generic arguments of the method itself are dropped
        if c.startswith('<'):
            try:
                j = mir.match_bracket(c, 0)
                mm = re.fullmatch(r'::(\w+)::<.*>', c[j + 1:], re.S)
                if mm:
                    c = c[:j + 1] + '::' + mm.group(1)
            except ValueError:
                pass
        m = re.fullmatch(r'<(.*) as ([^<>]*(?:<.*>)?)>::(\w+)', c, re.S)
        if m:
            ty = m.group(1).strip()
            if ty.startswith(self.crate + '::'):
                ty = ty[len(self.crate) + 2:]
            meth = m.group(3)
            trait = base_ty(m.group(2))
            cands = []
            for name in self.impl_names.get(meth, []):
                b = self.bodies[name]
                mm = re.match(r'^(.*?)<impl at (.*?):(\d+):(\d+): \d+:\d+>::', name)
                infos = self.adts.impl_by_span.get('%s:%s:%s' % (mm.group(2), mm.group(3), mm.group(4))) or []
                tnames = [i[1].get('path').split('::')[-1] for i in infos if isinstance(i[1], dict) and i[1].get('path')]
                if tnames and trait.split('::')[-1] not in tnames:
                    continue
                st = None
                if b.args:
                    st = re.sub(r"^(&(?:'\w+ )?(?:mut )?)", '', b.args[0][1])
                    st = re.sub(r'^std::pin::Pin<&mut (.*)>$', r'\1', st)
                impl_self = self.adts.impl_self.get('%s:%s:%s' % (mm.group(2), mm.group(3), mm.group(4)))
                if impl_self is not None:
                    # authoritative: the impl's Self type from rustdoc
                    same = base_ty(impl_self) == base_ty(ty)
                    foreign = impl_self.split('::')[0] not in ('', ) and base_ty(impl_self) not in self.adts.defs and impl_self.split('::')[-1] == base_ty(ty).split('::')[-1]
                    if same or foreign:
                        cands.append((0 if st == ty else 1, name))
                    continue
                if st is not None and (st == ty or base_ty(st) == base_ty(ty)) and meth not in ('from', 'try_from', 'default', 'new'):
                    cands.append((0 if st == ty else 1, name))
                elif meth in ('from', 'try_from', 'default') and base_ty(re.sub(r'^std::result::Result<(.*), .*>$', r'\1', b.ret)) == base_ty(ty):
                    cands.append((2, name))
            if cands:
                cands.sort()
                best = [n for s_, n in cands if s_ == cands[0][0]]
                if len(best) == 1 and not (meth in ('from', 'try_from') and '<' in m.group(2)):
                    return best[0]
                # several impls of the trait for the same base type (or From<U>): the trait's generic
                # argument must equal the argument type textually, otherwise we do not guess
                tg = m.group(2)
                k = tg.find('<')
                targs = mir.split_top(tg[k + 1:-1]) if k >= 0 else []
                exact = []
                for n in best:
                    b = self.bodies[n]
                    if targs and b.args and self._norm_ty(b.args[0][1]) == self._norm_ty(targs[0]):
                        exact.append(n)
                if len(exact) == 1:
                    return exact[0]
                if len(best) == 1 and not targs:
                    return best[0]
                # several impls of one generic trait for the same type (Extend<A> / Extend<&A>, ...): compare the
                # trait's generic argument as recorded by rustdoc for each impl with the one named by the call
                if targs:
                    want = self._short_sig(targs[0])
                    hits = []
                    for n in best:
                        mm = re.match(r'^(.*?)<impl at (.*?):(\d+):(\d+): \d+:\d+>::', n)
                        infos = self.adts.impl_by_span.get('%s:%s:%s' % (mm.group(2), mm.group(3), mm.group(4))) or []
                        for _for, tr in infos:
                            try:
                                arg = tr['args']['angle_bracketed']['args'][0]['type']
                            except (KeyError, IndexError, TypeError):
                                continue
                            if self._rd_sig(arg) == want:
                                hits.append(n)
                    if len(hits) == 1:
                        return hits[0]
                return None
            return None
        # `module::<impl Type<..>>::method` (how MIR names inherent methods of generic impls, e.g. pin-project's)
        m = re.fullmatch(r'([\w:]*?)<impl (.*)>::(\w+)(?:::<.*>)?', c, re.S)
        if m and not c.startswith('<'):
            want = base_ty(m.group(2))
            hits = []
            for name in self.impl_names.get(m.group(3), []):
                if not name.startswith(m.group(1) + '<impl at '):
                    continue
                b = self.bodies[name]
                if not b.args:
                    continue
                st = re.sub(r"^(&(?:'\w+ )?(?:mut )?)", '', b.args[0][1])
                st = re.sub(r"^std::pin::Pin<&(?:'\w+ )?(?:mut )?(.*)>$", r'\1', st)
                if base_ty(st) == want:
                    hits.append(name)
            if len(hits) == 1:
                return hits[0]
        # inherent / associated fn:  path::Type::method  or free fn with generics stripped
        if '::' in plain:
            r = self.method_index.get(plain)
            if r:
                return r
            t, meth = plain.rsplit('::', 1)
            r = self.method_index.get(base_ty(t) + '::' + meth)
            if r:
                return r
        return None
