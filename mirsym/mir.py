"""Parser for rustc's `-Zunpretty=mir` text (run with -Ztrim-diagnostic-paths=no).

Bodies are split eagerly (cheap); statements/terminators are parsed into tuples lazily, the
first time a body is executed.

AST
  place    := (local:int, proj:tuple)          proj items:
                 ('deref',) ('field', idx, ty) ('downcast', name) ('index', local)
                 ('cindex', offset, min_len, from_end) ('subslice', frm, to, from_end)
  operand  := ('copy', place) | ('move', place) | ('const', text)
  rvalue   := ('use', operand) | ('ref', place, kind) | ('discr', place) | ('len', place)
            | ('binop', op, a, b) | ('unop', op, a) | ('cast', operand, ty, kind)
            | ('agg_tuple', [operand]) | ('agg_array', [operand]) | ('repeat', operand, count_text)
            | ('agg_adt', path, variant_or_None, {'named': [(name, operand)]} | {'pos': [operand]} | None)
            | ('agg_closure', kind, span, [(name, operand)])
            | ('cfd', place) | ('raw', text)
  stmt     := ('assign', place, rvalue, lhs_text) | ('nop',) | ('setdiscr', place, variant)
  term     := ('goto', bb) | ('switch', operand, [(int, bb)], otherwise_bb_or_None)
            | ('return',) | ('unreachable',) | ('resume',) | ('drop', place, bb)
            | ('assert', operand, expected_bool, msg, bb)
            | ('call', place_or_None, callee_text_or_operand, [operand], bb_or_None)
"""
import re

BINOPS = {'Add', 'Sub', 'Mul', 'Div', 'Rem', 'BitXor', 'BitAnd', 'BitOr', 'Shl', 'Shr', 'Eq', 'Lt', 'Le',
          'Ne', 'Ge', 'Gt', 'Cmp', 'Offset', 'AddWithOverflow', 'SubWithOverflow', 'MulWithOverflow',
          'AddUnchecked', 'SubUnchecked', 'MulUnchecked', 'ShlUnchecked', 'ShrUnchecked'}
UNOPS = {'Not', 'Neg', 'PtrMetadata'}

OPEN = '([{<'
CLOSE = ')]}>'


def match_bracket(s, i):
    """s[i] is an opening bracket; returns index of the matching close. '<' '>' are brackets
    except in '->' / '=>' ; string literals are skipped."""
    depth = 0
    j = i
    n = len(s)
    while j < n:
        c = s[j]
        if c == '"':
            j += 1
            while j < n and s[j] != '"':
                if s[j] == '\\':
                    j += 1
                j += 1
        elif c in OPEN:
            if c == '<' and j + 1 < n and s[j + 1] in '= ' and depth == 0 and False:
                pass
            depth += 1
        elif c in CLOSE:
            if c == '>' and j > 0 and s[j - 1] in '-=':
                pass
            else:
                depth -= 1
                if depth == 0:
                    return j
        j += 1
    raise ValueError('unbalanced brackets in: ' + s[i:i + 120])


def split_top(s, sep=','):
    out = []
    depth = 0
    cur_start = 0
    j = 0
    n = len(s)
    while j < n:
        c = s[j]
        if c == '"':
            j += 1
            while j < n and s[j] != '"':
                if s[j] == '\\':
                    j += 1
                j += 1
        elif c == "'" and j + 2 < n and (s[j + 2] == "'" or (s[j + 1] == '\\' and "'" in s[j + 2:j + 6])):
            # char literal
            k = s.index("'", j + 2 if s[j + 1] != '\\' else j + 3)
            j = k
        elif c in OPEN:
            depth += 1
        elif c in CLOSE:
            if not (c == '>' and j > 0 and s[j - 1] in '-='):
                depth -= 1
        elif c == sep and depth == 0:
            out.append(s[cur_start:j].strip())
            cur_start = j + 1
        j += 1
    t = s[cur_start:].strip()
    if t:
        out.append(t)
    return out


_SG_CACHE = {}


def strip_generics(p):
    """remove ::<...> groups from a path"""
    r = _SG_CACHE.get(p)
    if r is None:
        r = _SG_CACHE[p] = _strip_generics(p)
    return r


def _strip_generics(p):
    out = []
    i = 0
    while i < len(p):
        if p.startswith('::<', i):
            i = match_bracket(p, i + 2) + 1
            continue
        out.append(p[i])
        i += 1
    return ''.join(out)


class Body:
    __slots__ = ('name', 'args', 'ret', 'kind', 'locals', 'raw_blocks', 'blocks', 'nlines')

    def __init__(self, name, args, ret, kind):
        self.name = name
        self.args = args          # [(idx, type)]
        self.ret = ret
        self.kind = kind          # 'fn' | 'const' | 'static'
        self.locals = {}
        self.raw_blocks = {}
        self.blocks = None        # parsed lazily
        self.nlines = 0

    def parsed(self):
        if self.blocks is None:
            self.blocks = {}
            for idx, (stmts, term) in self.raw_blocks.items():
                self.blocks[idx] = ([parse_stmt(s) for s in stmts], parse_term(term))
        return self.blocks


LET = re.compile(r'^\s*let (?:mut )?_(\d+): (.*);$')
BBRE = re.compile(r'^    bb(\d+)(?: \(cleanup\))?: \{$')


def parse_header(line):
    s = line[3:-2]
    m = re.search(r'\((_1: |\) -> )', s)
    i = m.start()
    j = match_bracket(s, i)
    name = s[:i]
    args = []
    for a in split_top(s[i + 1:j]):
        mm = re.match(r'_(\d+): (.*)$', a)
        args.append((int(mm.group(1)), mm.group(2)))
    ret = s[j + 1:].strip()
    assert ret.startswith('-> '), line
    return name, args, ret[3:]


def parse_file(path, crate_prefix=''):
    """returns {name: Body}. crate_prefix (e.g. 'litep2p::') is prepended to local item names
    so that several crates can share one table; callers strip/add it consistently."""
    bodies = {}
    with open(path) as f:
        lines = f.read().split('\n')
    i = 0
    cur = None
    n = len(lines)
    while i < n:
        line = lines[i]
        if line.startswith('fn ') and line.endswith(' {'):
            name, args, ret = parse_header(line)
            cur = Body(name, args, ret, 'fn')
            for idx, ty in args:
                cur.locals[idx] = ty
            cur.locals[0] = ret
            bodies[name] = cur
            start = i
        elif (line.startswith('const ') or line.startswith('static ')) and line.endswith('= {'):
            kind, rest = line.split(' ', 1)
            if rest.startswith('mut '):
                rest = rest[4:]
            rest = rest[:-len(' = {')]
            k = _top_level_find(rest, ': ')
            cname, cty = rest[:k], rest[k + 2:]
            cur = Body(cname, [], cty, kind)
            cur.locals[0] = cty
            bodies[cname] = cur
            start = i
        elif (line.startswith('const ') or line.startswith('static ')) and line.endswith(';') and ' = const ' in line:
            kind, rest = line.split(' ', 1)
            if rest.startswith('mut '):
                rest = rest[4:]
            k = _top_level_find(rest, ': ')
            cname = rest[:k]
            k2 = _top_level_find(rest, ' = const ')
            cty, cval = rest[k + 2:k2], rest[k2 + 3:-1]
            b = Body(cname, [], cty, kind)
            b.locals[0] = cty
            b.raw_blocks[0] = (['_0 = %s;' % cval], 'return;')
            bodies[cname] = b
        elif line == '}':
            if cur is not None:
                cur.nlines = i - start
            cur = None
        elif cur is not None:
            m = LET.match(line)
            if m:
                cur.locals[int(m.group(1))] = m.group(2)
            else:
                m = BBRE.match(line)
                if m:
                    idx = int(m.group(1))
                    stmts = []
                    i += 1
                    while lines[i] != '    }':
                        t = lines[i].strip()
                        if t:
                            stmts.append(t)
                        i += 1
                    cur.raw_blocks[idx] = (stmts[:-1], stmts[-1])
        i += 1
    return bodies


# ---------------------------------------------------------------- places / operands

def parse_place(s):
    s = s.strip()
    m = re.match(r'_(\d+)', s)
    if m and not s.startswith('('):
        local = int(m.group(1))
        proj = ()
        rest = s[m.end():]
    elif s.startswith('('):
        j = match_bracket(s, 0)
        inner = s[1:j]
        rest = s[j + 1:]
        if inner.startswith('*'):
            local, proj = parse_place(inner[1:])
            proj = proj + (('deref',),)
        else:
            # "(P as Variant)" or "(P.N: T)"
            base_end = _place_prefix_end(inner)
            base = inner[:base_end]
            tail = inner[base_end:]
            local, proj = parse_place(base)
            if tail.startswith(' as '):
                proj = proj + (('downcast', tail[4:].strip()),)
            else:
                mm = re.match(r'\.(\d+): (.*)$', tail, re.S)
                assert mm, ('bad place', s)
                proj = proj + (('field', int(mm.group(1)), mm.group(2)),)
    else:
        raise ValueError('bad place: ' + s)
    # suffixes: [ _n ] , [k of n], [-k of n], [a..b], [a:], [..]
    while rest:
        assert rest[0] == '[', ('bad place suffix', s)
        j = match_bracket(rest, 0)
        ix = rest[1:j]
        rest = rest[j + 1:]
        m = re.fullmatch(r'_(\d+)', ix)
        if m:
            proj = proj + (('index', int(m.group(1))),)
            continue
        m = re.fullmatch(r'(-?)(\d+) of (\d+)', ix)
        if m:
            proj = proj + (('cindex', int(m.group(2)), int(m.group(3)), m.group(1) == '-'),)
            continue
        m = re.fullmatch(r'(\d+):(-?)(\d*)', ix)
        if m:
            proj = proj + (('subslice', int(m.group(1)), int(m.group(3) or 0), m.group(2) == '-'),)
            continue
        raise ValueError('bad index projection: ' + s)
    return local, proj


def _place_prefix_end(inner):
    """inner = '<place><tail>' where place is '_n' or parenthesised (possibly with [..] suffixes)"""
    if inner.startswith('('):
        j = match_bracket(inner, 0) + 1
    else:
        j = re.match(r'_\d+', inner).end()
    while j < len(inner) and inner[j] == '[':
        j = match_bracket(inner, j) + 1
    return j


def parse_operand(s):
    s = s.strip()
    if s.startswith('copy '):
        return ('copy', parse_place(s[5:]))
    if s.startswith('move '):
        return ('move', parse_place(s[5:]))
    if s.startswith('no_retag copy '):
        return ('copy', parse_place(s[14:]))
    if s.startswith('const '):
        return ('const', s[6:].strip())
    # zero-sized fn items / tuple-struct constructors passed as values are printed bare
    return ('fnitem', s)


CAST_RE = re.compile(r'^(.*) as (.*?) \((\w+)(?:\((.*)\))?\)$', re.S)


def parse_rvalue(s):
    s = s.strip()
    if s.startswith(('copy ', 'move ', 'const ', 'no_retag ')):
        m = CAST_RE.match(s)
        if m and _balanced(m.group(1)):
            return ('cast', parse_operand(m.group(1)), m.group(2), m.group(3))
        return ('use', parse_operand(s))
    m = CAST_RE.match(s)
    if m and not s.startswith('&') and _balanced(m.group(1)) and m.group(3) in ('PointerCoercion', 'IntToInt', 'Transmute', 'Subtype', 'PtrToPtr', 'FnPtrToPtr', 'IntToFloat', 'FloatToInt', 'FloatToFloat', 'PointerExposeProvenance', 'PointerWithExposedProvenance'):
        return ('cast', ('fnitem', m.group(1).strip()), m.group(2), m.group(3))
    if s.startswith('&'):
        t = s[1:]
        kind = 'shared'
        for pre, k in (('mut ', 'mut'), ('raw const ', 'rawconst'), ('raw mut ', 'rawmut'), ('fake shallow ', 'shared'), ('fake ', 'shared')):
            if t.startswith(pre):
                t = t[len(pre):]
                kind = k
                break
        return ('ref', parse_place(t), kind)
    m = re.match(r'^(\w+)\((.*)\)$', s, re.S)
    if m:
        head = m.group(1)
        if head == 'discriminant':
            return ('discr', parse_place(m.group(2)))
        if head == 'Len':
            return ('len', parse_place(m.group(2)))
        if head == 'CopyForDeref':
            return ('cfd', parse_place(m.group(2)))
        if head in BINOPS:
            a, b = split_top(m.group(2))
            return ('binop', head, parse_operand(a), parse_operand(b))
        if head in UNOPS:
            return ('unop', head, parse_operand(m.group(2)))
    if s.startswith('['):
        inner = s[1:match_bracket(s, 0)]
        parts = split_top(inner, ';')
        if len(parts) == 2:
            return ('repeat', parse_operand(parts[0]), parts[1])
        return ('agg_array', [parse_operand(x) for x in split_top(inner)])
    if s.startswith('(') and match_bracket(s, 0) == len(s) - 1:
        return ('agg_tuple', [parse_operand(x) for x in split_top(s[1:-1])])
    if s.startswith('{closure@') or s.startswith('{coroutine@') or s.startswith('{async ') or s.startswith('{coroutine-closure@'):
        j = match_bracket(s, 0)
        span = s[:j + 1]
        rest = s[j + 1:].strip()
        fields = []
        if rest.startswith('{'):
            inner = rest[1:match_bracket(rest, 0)].strip()
            for part in split_top(inner):
                k, v = part.split(': ', 1)
                fields.append((k.strip(), parse_operand(v)))
        return ('agg_closure', normalize_span(span), fields)
    # ADT aggregate
    if s.endswith('}'):
        # PATH { a: x, b: y }
        k = _last_top_level_open(s, '{')
        path = s[:k].strip()
        inner = s[k + 1:-1].strip()
        fields = []
        for part in split_top(inner):
            nm, v = part.split(': ', 1)
            fields.append((nm.strip(), parse_operand(v)))
        return ('agg_adt', path, {'named': fields})
    if s.endswith(')'):
        k = _last_top_level_open(s, '(')
        path = s[:k].strip()
        if re.fullmatch(r'[\w:<>,&\' \[\]\(\);\*\{\}@/\.\-#=+?!]+', path) and '::' in path:
            return ('agg_adt', path, {'pos': [parse_operand(x) for x in split_top(s[k + 1:-1])]})
    if re.match(r'^[\w<]', s):
        return ('agg_adt', s, None)
    return ('raw', s)


def _balanced(s):
    d = 0
    for i, c in enumerate(s):
        if c in '([{':
            d += 1
        elif c in ')]}':
            d -= 1
    return d == 0


def _last_top_level_open(s, ch):
    """index of the opening bracket `ch` matching the final closing bracket of s"""
    depth = 0
    i = len(s) - 1
    while i >= 0:
        c = s[i]
        if c in ')]}':
            depth += 1
        elif c in '([{':
            depth -= 1
            if depth == 0:
                assert c == ch, (s, c, ch)
                return i
        i -= 1
    raise ValueError('unbalanced: ' + s)


# ---------------------------------------------------------------- statements / terminators

NOPS = ('StorageLive', 'StorageDead', 'nop', 'FakeRead', 'AscribeUserType', 'Retag', 'PlaceMention', 'Coverage',
        'ConstEvalCounter', 'BackwardIncompatibleDropHint', 'Deinit', 'assume(')


def parse_stmt(st):
    if st.startswith(NOPS) or st.startswith('//'):
        return ('nop',)
    assert st.endswith(';'), st
    st = st[:-1]
    m = re.match(r'^discriminant\((.*)\) = (\d+)$', st)
    if m:
        return ('setdiscr', parse_place(m.group(1)), int(m.group(2)))
    k = _top_level_find(st, ' = ')
    lhs, rhs = st[:k], st[k + 3:]
    return ('assign', parse_place(lhs), parse_rvalue(rhs), lhs)


def _top_level_find(s, needle):
    depth = 0
    j = 0
    n = len(s)
    while j < n:
        c = s[j]
        if c == '"':
            j += 1
            while j < n and s[j] != '"':
                if s[j] == '\\':
                    j += 1
                j += 1
        elif c in OPEN:
            depth += 1
        elif c in CLOSE:
            if not (c == '>' and j > 0 and s[j - 1] in '-='):
                depth -= 1
        elif depth == 0 and s.startswith(needle, j):
            return j
        j += 1
    raise ValueError('no top-level %r in %s' % (needle, s[:120]))


def _targets(s):
    out = {}
    for part in split_top(s):
        k, v = part.split(': ', 1) if ': ' in part else (part.split(' ')[0], part)
        out[k.strip()] = v.strip()
    return out


def parse_term(t):
    t = t.rstrip(';')
    if t == 'return':
        return ('return',)
    if t == 'unreachable':
        return ('unreachable',)
    if t == 'resume' or t.startswith('terminate') or t == 'abort':
        return ('resume',)
    m = re.fullmatch(r'goto -> bb(\d+)', t)
    if m:
        return ('goto', int(m.group(1)))
    m = re.fullmatch(r'(?:falseEdge|falseUnwind) -> \[real: bb(\d+).*\]', t)
    if m:
        return ('goto', int(m.group(1)))
    m = re.fullmatch(r'switchInt\((.*)\) -> \[(.*)\]', t, re.S)
    if m:
        cases = []
        otherwise = None
        for part in split_top(m.group(2)):
            k, bb = part.split(': bb')
            if k == 'otherwise':
                otherwise = int(bb)
            else:
                cases.append((int(k), int(bb)))
        return ('switch', parse_operand(m.group(1)), cases, otherwise)
    m = re.fullmatch(r'drop\((.*)\) -> \[return: bb(\d+)(?:, unwind.*)?\]', t, re.S)
    if m:
        return ('drop', parse_place(m.group(1)), int(m.group(2)))
    if t.startswith('assert('):
        j = match_bracket(t, 6)
        inner = t[7:j]
        parts = split_top(inner)
        cond = parts[0]
        expected = True
        if cond.startswith('!'):
            expected = False
            cond = cond[1:]
        msg = parts[1] if len(parts) > 1 else ''
        mm = re.search(r'success: bb(\d+)', t[j:])
        return ('assert', parse_operand(cond), expected, msg, int(mm.group(1)))
    # calls:   DEST = CALLEE(ARGS) -> [return: bbN, unwind ...]   |  CALLEE(ARGS) -> unwind ...
    k = t.rfind(' -> ')
    head = t[:k]
    tail = t[k + 4:]
    mm = re.search(r'return: bb(\d+)', tail)
    ret = int(mm.group(1)) if mm else None
    dest = None
    call = head
    if head.startswith(('_', '(')):
        try:
            kk = _top_level_find(head, ' = ')
            dest = parse_place(head[:kk])
            call = head[kk + 3:]
        except ValueError:
            pass
    assert call.endswith(')'), t
    i = _last_top_level_open(call, '(')
    callee = call[:i].strip()
    args = [parse_operand(a) for a in split_top(call[i + 1:-1])]
    if callee.startswith(('move ', 'copy ')):
        callee = parse_operand(callee)
    return ('call', dest, callee, args, ret)


def load_closure_operands(smir_path):
    """closure/coroutine aggregates with *all* captured operands, from `-Zunpretty=stable-mir`
    (the plain MIR printer truncates precise captures to the source-level upvar names).
    -> {(span, dest_text): [operand AST] | None if ambiguous}"""
    out = {}
    rx = re.compile(r'^\s+(\S.*?) = (\{(?:closure|coroutine|async [^@{}]*)@[^{}]*\})\((.*)\);$')
    with open(smir_path) as f:
        for line in f:
            if '= {' not in line:
                continue
            m = rx.match(line.rstrip('\n'))
            if not m:
                continue
            dest, span, ops = m.group(1), normalize_span(m.group(2)), m.group(3)
            parsed = []
            for o in split_top(ops):
                o = o.strip()
                if o.startswith('move '):
                    parsed.append(('move', parse_place(o[5:])))
                elif re.match(r'^(_\d+|\()', o):
                    parsed.append(('copy', parse_place(o)))
                else:
                    parsed.append(('const', o))
            key = (span, dest)
            if key in out and out[key] != parsed:
                out[key] = None
            else:
                out[key] = parsed
    return out


def normalize_span(span):
    return re.sub(r' \(#\d+\)\}$', '}', span)
