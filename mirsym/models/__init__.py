"""Library models (the trusted base). Order matters: the first matching pattern wins."""


def install_all(it):
    from . import bytesm, btree, timekad, maddr, env, seq, core, cidm, strm, cryptom, asyncm, protom
    asyncm.install(it)
    protom.install(it)
    cryptom.install(it)
    strm.install(it)
    cidm.install(it)
    bytesm.install(it)
    btree.install(it)
    timekad.install(it)
    maddr.install(it)
    env.install(it)
    seq.install(it)
    core.install(it)
