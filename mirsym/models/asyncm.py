"""Models of small async plumbing: tokio oneshot, tokio_util PollSender, futures Sink/Future `*_unpin` helpers."""
import re

from ..interp import Inconclusive, Violation
from ..values import Int, UNIT, Adt, Tup, Cell, Ptr, Model, opt_none, opt_some, res_ok, res_err
from .env import Channel, _chan

PIN = 'std::pin::Pin'
POLL = 'std::task::Poll'


def _unpin(v):
    return v.fields[0] if isinstance(v, Adt) and v.ty == PIN else v


# ------------------------------------------------------------------------------------------------ oneshot
class Oneshot(Model):
    """state of a tokio oneshot channel: value (or None), whether the sender / receiver is gone"""
    __slots__ = ('value', 'sent', 'tx_gone', 'rx_gone')
    fields = ()

    def __init__(self, value=None, sent=False, tx_gone=False, rx_gone=False):
        self.value = value
        self.sent = sent
        self.tx_gone = tx_gone
        self.rx_gone = rx_gone


class OneshotTx(Model):
    __slots__ = ('cell',)
    fields = ()

    def __init__(self, cell):
        self.cell = cell

    def on_drop(self, it):
        st = it.load(self.cell)
        it.store(self.cell, Oneshot(st.value, st.sent, True, st.rx_gone))


class OneshotRx(Model):
    __slots__ = ('cell',)
    fields = ()

    def __init__(self, cell):
        self.cell = cell

    def on_drop(self, it):
        st = it.load(self.cell)
        it.store(self.cell, Oneshot(st.value, st.sent, st.tx_gone, True))


def m_oneshot_channel(it, a, ty, callee):
    p = Ptr(Cell('oneshot', Oneshot()))
    return Tup([OneshotTx(p), OneshotRx(p)])


def _handle(it, v, cls):
    while isinstance(v, Ptr):
        v = it.load(v)
    if not isinstance(v, cls):
        raise Inconclusive('oneshot operation on %r' % (v,))
    return v


def m_oneshot_send(it, a, ty, callee):
    tx = _handle(it, a[0], OneshotTx)
    st = it.load(tx.cell)
    if st.rx_gone:
        return res_err(a[1])
    it.store(tx.cell, Oneshot(a[1], True, True, st.rx_gone))
    return res_ok(UNIT)


def m_oneshot_poll(it, a, ty, callee):
    rx = _handle(it, _unpin(a[0]), OneshotRx)
    st = it.load(rx.cell)
    if st.sent:
        it.store(rx.cell, Oneshot(None, False, True, st.rx_gone))
        return Adt(POLL, 0, [res_ok(st.value)])
    if st.tx_gone:
        return Adt(POLL, 0, [res_err(Adt('tokio::sync::oneshot::error::RecvError', 0, ()))])
    return Adt(POLL, 1, ())


# ------------------------------------------------------------------------------------------------ PollSender
class PollSenderM(Model):
    """tokio_util::sync::PollSender over a modelled channel: `reserved` is the permit obtained by poll_reserve"""
    __slots__ = ('chan', 'reserved')
    fields = ()

    def __init__(self, chan, reserved=False):
        self.chan = chan
        self.reserved = reserved


def m_pollsender_new(it, a, ty, callee):
    return PollSenderM(_chan(it, a[0]))


def m_pollsender_reserve(it, a, ty, callee):
    p = _unpin(a[0])
    while isinstance(it.load(p), Ptr):
        p = it.load(p)
    ps = it.load(p)
    ch = it.load(ps.chan)
    if ch.closed:
        return Adt(POLL, 0, [res_err(Adt('tokio_util::sync::PollSendError', 0, [opt_none()]))])
    if ps.reserved:
        return Adt(POLL, 0, [res_ok(UNIT)])
    if ch.cap is not None and len(ch.fields) + 1 > ch.cap:
        return Adt(POLL, 1, ())
    it.store(p, PollSenderM(ps.chan, True))
    return Adt(POLL, 0, [res_ok(UNIT)])


def m_pollsender_send_item(it, a, ty, callee):
    p = _unpin(a[0])
    while isinstance(it.load(p), Ptr):
        p = it.load(p)
    ps = it.load(p)
    ch = it.load(ps.chan)
    if ch.closed:
        it.store(p, PollSenderM(ps.chan, False))
        return res_err(Adt('tokio_util::sync::PollSendError', 0, [opt_some(a[1])]))
    if not ps.reserved:
        raise Violation('panic', '`send_item` called without first calling `poll_reserve`', it.current_model())
    it.store(ps.chan, Channel(ch.fields + (a[1],), ch.cap, ch.closed))
    it.store(p, PollSenderM(ps.chan, False))
    return res_ok(UNIT)


def m_receiver_close(it, a, ty, callee):
    p = _chan(it, a[0])
    ch = it.load(p)
    it.store(p, Channel(ch.fields, ch.cap, True))
    return UNIT


# ------------------------------------------------------------------------------------------------ *_unpin helpers
def m_sink_unpin(it, a, ty, callee):
    """SinkExt::{poll_ready,start_send,poll_flush,poll_close}_unpin(&mut S, ..) = Sink::x(Pin::new(S), ..)"""
    m = re.match(r'^<(.*) as futures::SinkExt<(.*)>>::(poll_ready|start_send|poll_flush|poll_close)_unpin$', callee, re.S)
    return it.call('<%s as futures::Sink<%s>>::%s' % (m.group(1), m.group(2), m.group(3)), [Adt(PIN, 0, [a[0]])] + list(a[1:]), ty)


class CloseFut(Model):
    """futures::sink::Close: polling it polls `poll_close` of the sink"""
    __slots__ = ('sink', 'sink_ty', 'item_ty')
    fields = ()

    def __init__(self, sink, sink_ty, item_ty):
        self.sink = sink
        self.sink_ty = sink_ty
        self.item_ty = item_ty


def m_sink_close(it, a, ty, callee):
    m = re.match(r'^<(.*) as futures::SinkExt<(.*)>>::close$', callee, re.S)
    return CloseFut(a[0], m.group(1), m.group(2))


def m_close_poll(it, a, ty, callee):
    p = _unpin(a[0])
    fut = it.load(p)
    return it.call('<%s as futures::Sink<%s>>::poll_close' % (fut.sink_ty, fut.item_ty), [Adt(PIN, 0, [fut.sink]), a[1]], ty)


def m_future_poll_unpin(it, a, ty, callee):
    """FutureExt::poll_unpin(&mut F, cx) = Pin::new(F).poll(cx)"""
    m = re.match(r'^<(.*) as futures::FutureExt>::poll_unpin$', callee, re.S)
    return it.call('<%s as futures::Future>::poll' % m.group(1), [Adt(PIN, 0, [a[0]]), a[1]], ty)


def m_pinned_future_poll(it, a, ty, callee):
    """<Pin<&mut F> as Future>::poll(self: Pin<&mut Pin<&mut F>>, cx) = F::poll(inner, cx)"""
    m = re.match(r'^<std::pin::Pin<&mut (.*)> as (?:std::future|futures)::Future>::poll$', callee, re.S)
    outer = _unpin(a[0])
    inner = it.load(outer)                      # the Pin<&mut F> value
    return it.call('<%s as futures::Future>::poll' % m.group(1), [inner, a[1]], ty)




# ------------------------------------------------------------------------------------------------ tokio AsyncWriteExt / time
class WriteAllFut(Model):
    """tokio::io::util::WriteAll: keeps calling poll_write until the whole buffer is with the writer"""
    __slots__ = ('writer', 'writer_ty', 'buf', 'done')
    fields = ()

    def __init__(self, writer, writer_ty, buf, done=0):
        self.writer = writer
        self.writer_ty = writer_ty
        self.buf = buf
        self.done = done


def m_write_all(it, a, ty, callee):
    m = re.match(r'^<(.*) as tokio::io::AsyncWriteExt>::write_all$', callee, re.S)
    return WriteAllFut(a[0], m.group(1), a[1])


def _writer_call(it, fut, method, args):
    w = fut.writer
    wt = fut.writer_ty
    tgt = it.load(w)
    if isinstance(tgt, Adt) and tgt.ty == 'Box':
        from .core import box_ptr
        w = box_ptr(tgt)
        wt = it.runtime_type(w) or wt
    return it.call('<%s as tokio::io::AsyncWrite>::%s' % (wt, method), [Adt(PIN, 0, [w])] + args, None)


def m_write_all_poll(it, a, ty, callee):
    p = _unpin(a[0])
    fut = it.load(p)
    buf = fut.buf
    base, n = buf.win if buf.win is not None else (0, len(it.load(buf).fields))
    done = fut.done
    while done < n:
        rest = Ptr(buf.cell, buf.path, (base + done, n - done))
        r = _writer_call(it, fut, 'poll_write', [a[1], rest])
        if r.variant == 1:
            it.store(p, WriteAllFut(fut.writer, fut.writer_ty, fut.buf, done))
            return Adt(POLL, 1, ())
        res = r.fields[0]
        if res.variant == 1:
            return Adt(POLL, 0, [res_err(res.fields[0])])
        k = res.fields[0]
        if not (isinstance(k, Int) and k.conc):
            raise Inconclusive('write_all over a carrier that accepts a symbolic number of bytes')
        if k.v == 0:
            from .env import IoErr
            return Adt(POLL, 0, [res_err(IoErr('WriteZero'))])
        done += k.v
    it.store(p, WriteAllFut(fut.writer, fut.writer_ty, fut.buf, done))
    return Adt(POLL, 0, [res_ok(UNIT)])


class FlushFut(Model):
    __slots__ = ('writer', 'writer_ty')
    fields = ()

    def __init__(self, writer, writer_ty):
        self.writer = writer
        self.writer_ty = writer_ty


def m_flush(it, a, ty, callee):
    m = re.match(r'^<(.*) as tokio::io::AsyncWriteExt>::flush$', callee, re.S)
    return FlushFut(a[0], m.group(1))


def m_flush_poll(it, a, ty, callee):
    fut = it.load(_unpin(a[0]))
    return _writer_call(it, fut, 'poll_flush', [a[1]])


class TimeoutFut(Model):
    """tokio::time::timeout(d, fut): the timer never fires within the explored window (stated assumption)"""
    __slots__ = ('fields',)

    def __init__(self, inner):
        self.fields = (inner,)

    def with_field(self, i, v):
        f = list(self.fields)
        f[i] = v
        return TimeoutFut(f[0])


class SleepFut(Model):
    """tokio::time::Sleep: never elapses within the explored window (stated assumption)"""
    __slots__ = ()
    fields = ()


def m_sleep(it, a, ty, callee):
    return SleepFut()


def m_sleep_poll(it, a, ty, callee):
    return Adt(POLL, 1, ())


def m_timeout(it, a, ty, callee):
    return TimeoutFut(a[1])


def m_timeout_poll(it, a, ty, callee):
    p = _unpin(a[0])
    while isinstance(it.load(p), Ptr):
        p = it.load(p)
    fut = it.load(p)
    if not isinstance(fut, TimeoutFut):
        raise Inconclusive('Timeout::poll on %r' % (fut,))
    from .bytesm import poll_value, NextFut, m_next_poll
    inner = fut.fields[0]
    if isinstance(inner, NextFut):
        m = re.match(r"^<tokio::time::Timeout<(futures::stream::Next<'_, .*>)> as (?:std::future|futures)::Future>::poll$", callee, re.S)
        r = m_next_poll(it, [Adt(PIN, 0, [Ptr(p.cell, p.path + (0,))]), a[1]], None, '<%s as futures::Future>::poll' % m.group(1))
    else:
        r = poll_value(it, Ptr(p.cell, p.path + (0,)), a[1])
    if r.variant == 1:
        return Adt(POLL, 1, ())
    return Adt(POLL, 0, [res_ok(r.fields[0])])




def install(it):
    A = it.add_model
    A(r'tokio::sync::oneshot::channel::<.*>', m_oneshot_channel)
    A(r'tokio::sync::oneshot::Sender::<.*>::send', m_oneshot_send)
    A(r'<tokio::sync::oneshot::Receiver<.*> as (?:std::future|futures)::Future>::poll', m_oneshot_poll)
    A(r'tokio_util::sync::PollSender::<.*>::new', m_pollsender_new)
    A(r'tokio_util::sync::PollSender::<.*>::poll_reserve', m_pollsender_reserve)
    A(r'tokio_util::sync::PollSender::<.*>::send_item', m_pollsender_send_item)
    A(r'tokio::sync::mpsc::Receiver::<.*>::close', m_receiver_close)
    A(r'<.* as futures::SinkExt<.*>>::(poll_ready|start_send|poll_flush|poll_close)_unpin', m_sink_unpin)
    A(r'<.* as futures::SinkExt<.*>>::close', m_sink_close)
    A(r"<futures::sink::Close<'_, .*> as (?:std::future|futures)::Future>::poll", m_close_poll)
    A(r'<.* as futures::FutureExt>::poll_unpin', m_future_poll_unpin)
    A(r'<std::pin::Pin<&mut .*> as (?:std::future|futures)::Future>::poll', m_pinned_future_poll)
    A(r'<.* as tokio::io::AsyncWriteExt>::write_all', m_write_all)
    A(r"<tokio::io::util::write_all::WriteAll<'_, .*> as (?:std::future|futures)::Future>::poll", m_write_all_poll)
    A(r'<.* as tokio::io::AsyncWriteExt>::flush', m_flush)
    A(r"<tokio::io::util::flush::Flush<'_, .*> as (?:std::future|futures)::Future>::poll", m_flush_poll)
    A(r'tokio::time::timeout::<.*>', m_timeout)
    A(r'<tokio::time::Timeout<.*> as (?:std::future|futures)::Future>::poll', m_timeout_poll)
    A(r'tokio::time::sleep', m_sleep)
    A(r'<tokio::time::Sleep as (?:std::future|futures)::Future>::poll', m_sleep_poll)
    A(r'futures_timer::Delay::new', m_sleep)
    A(r'<futures_timer::Delay as (?:std::future|futures)::Future>::poll', m_sleep_poll)
