"""BTreeMap model: association list kept sorted by `<K as Ord>::cmp` (the real impl is called)."""
import re

from ..interp import Inconclusive
from .. import mir
from ..values import Int, UNIT, Adt, Tup, Seq, Cell, Ptr, usize, opt_none, opt_some
from .core import MapModel, EntryModel, deref
from .seq import LazyIter


def key_ty(callee):
    m = re.match(r'^std::collections::(?:BTreeMap|btree_map::\w+)::<(.*)>::\w+', callee, re.S)
    args = mir.split_top(m.group(1))
    args = [a for a in args if not a.startswith("'")]
    return args[0]


def cmp(it, kty, a, b):
    """-1/0/1 (forks through the real Ord impl)"""
    o = it.call('<%s as std::cmp::Ord>::cmp' % kty, [Ptr(Cell('a', a)), Ptr(Cell('b', b))], 'std::cmp::Ordering')
    return o.variant - 1


def m_insert(it, a, ty, callee):
    mp, k, v = a
    m = it.load(mp)
    kty = key_ty(callee)
    pos = len(m.keys)
    for i, e in enumerate(m.keys):
        c = cmp(it, kty, k, e)
        if c == 0:
            old = m.fields[i]
            it.store(mp, m.with_field(i, v))
            return opt_some(old)
        if c < 0:
            pos = i
            break
    it.store(mp, MapModel(m.keys[:pos] + (k,) + m.keys[pos:], m.fields[:pos] + (v,) + m.fields[pos:], 'btree'))
    return opt_none()


def m_pop(which):
    def f(it, a, ty, callee):
        mp = a[0]
        m = it.load(mp)
        if not m.keys:
            return opt_none()
        i = 0 if which == 'first' else len(m.keys) - 1
        it.store(mp, MapModel(m.keys[:i] + m.keys[i + 1:], m.fields[:i] + m.fields[i + 1:], 'btree'))
        return opt_some(Tup([m.keys[i], m.fields[i]]))
    return f


def m_kv(which):
    def f(it, a, ty, callee):
        mp = a[0]
        m = it.load(mp)
        if not m.keys:
            return opt_none()
        i = 0 if which == 'first' else len(m.keys) - 1
        return opt_some(Tup([Ptr(Cell('key', m.keys[i])), Ptr(mp.cell, mp.path + (i,))]))
    return f


def m_last_entry(it, a, ty, callee):
    mp = a[0]
    m = it.load(mp)
    if not m.keys:
        return opt_none()
    return opt_some(EntryModel(mp, m.keys[-1], len(m.keys) - 1))


def m_entry_key(it, a, ty, callee):
    e = deref(it, a[0])
    return Ptr(Cell('key', e.key))


def m_into_values(it, a, ty, callee):
    return LazyIter(a[0].fields)


def m_find(it, m, kty, k):
    for i, e in enumerate(m.keys):
        if cmp(it, kty, k, e) == 0:
            return i
    return None


def m_get(it, a, ty, callee):
    mp, kp = a
    m = it.load(mp)
    i = m_find(it, m, key_ty(callee), deref(it, kp))
    return opt_none() if i is None else opt_some(Ptr(mp.cell, mp.path + (i,)))


def m_remove(it, a, ty, callee):
    mp, kp = a
    m = it.load(mp)
    i = m_find(it, m, key_ty(callee), deref(it, kp))
    if i is None:
        return opt_none()
    it.store(mp, MapModel(m.keys[:i] + m.keys[i + 1:], m.fields[:i] + m.fields[i + 1:], 'btree'))
    return opt_some(m.fields[i])


def install(it):
    A = it.add_model
    A(r'std::collections::BTreeMap::<.*>::insert', m_insert)
    A(r'std::collections::BTreeMap::<.*>::pop_first', m_pop('first'))
    A(r'std::collections::BTreeMap::<.*>::pop_last', m_pop('last'))
    A(r'std::collections::BTreeMap::<.*>::first_key_value', m_kv('first'))
    A(r'std::collections::BTreeMap::<.*>::last_key_value', m_kv('last'))
    A(r'std::collections::BTreeMap::<.*>::last_entry', m_last_entry)
    A(r'std::collections::btree_map::OccupiedEntry::<.*>::key', m_entry_key)
    A(r'std::collections::BTreeMap::<.*>::into_values', m_into_values)
    A(r'std::collections::BTreeMap::<.*>::get::<.*>', m_get)
    A(r'std::collections::BTreeMap::<.*>::remove::<.*>', m_remove)
