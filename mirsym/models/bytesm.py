"""bytes::{Bytes,BytesMut}, tokio ReadBuf, Pin/Context/Waker plumbing, Box<dyn Trait> forwarding."""
import re
import z3

from ..interp import Inconclusive, Violation, b_not, b_and, b_or
from ..values import Int, UNIT, Adt, Tup, Seq, Cell, Ptr, Extern, Model, usize, opt_none, opt_some
from .core import deref, mk_box, box_ptr
from .seq import _cap

MAX_SYMBOLIC_ALLOC = 4096


def byte_seq(bs):
    return Seq(bs, 'bytes')


SYMBOLIC_ALLOC_FORK = 64


def conc_len(it, n, what):
    """allocation sizes: concrete, or concretised by forking over the feasible values inside a small bound"""
    if n.conc:
        return n.v
    z = n.z()
    conds = [z == z3.BitVecVal(v, n.w) for v in range(SYMBOLIC_ALLOC_FORK + 1)]
    conds.append(z3.UGT(z, z3.BitVecVal(SYMBOLIC_ALLOC_FORK, n.w)))
    k = it.choose(len(conds), conds)
    if k > SYMBOLIC_ALLOC_FORK:
        # sizes beyond the fork bound: ONE representative value per path (stated under-approximation: the claim
        # covers every size <= SYMBOLIC_ALLOC_FORK and one solver-chosen larger size per path)
        if not it.check_sat():
            from ..interp import Infeasible
            raise Infeasible()
        v = it.solver.model().eval(z, model_completion=True).as_long()
        if v > (1 << 20):
            raise Inconclusive('%s: representative size %d too large to materialise' % (what, v))
        it.solver.add(z == z3.BitVecVal(v, n.w))
        it.stats['models']['(representative allocation size > %d)' % SYMBOLIC_ALLOC_FORK] = it.stats['models'].get('(representative allocation size > %d)' % SYMBOLIC_ALLOC_FORK, 0) + 1
        return v
    return k


def m_zeroed(it, a, ty, callee):
    n = conc_len(it, a[0], 'BytesMut::zeroed')
    return byte_seq([Int(0, 8)] * n)


def m_new(it, a, ty, callee):
    return byte_seq(())


def m_resize(it, a, ty, callee):
    p, n, val = a
    v = it.load(p)
    k = conc_len(it, n, 'BytesMut::resize')
    f = list(v.fields[:k]) + [val] * max(0, k - len(v.fields))
    it.store(p, byte_seq(f))
    return UNIT


def m_deref(it, a, ty, callee):
    p = a[0]
    v = it.load(p)
    return Ptr(p.cell, p.path, (0, len(v.fields)))


def m_len(it, a, ty, callee):
    return usize(len(deref(it, a[0]).fields))


def m_is_empty(it, a, ty, callee):
    return len(deref(it, a[0]).fields) == 0


def m_truncate(it, a, ty, callee):
    p, n = a
    v = it.load(p)
    k = _cap(it, it.call('std::cmp::min::<usize>', [n, usize(len(v.fields))], None), len(v.fields))
    it.store(p, byte_seq(v.fields[:k]))
    return UNIT


def m_split_to(it, a, ty, callee):
    p, n = a
    v = it.load(p)
    it.require(it.binop('Le', n, usize(len(v.fields))), 'panic', 'split_to out of bounds')
    k = _cap(it, n, len(v.fields))
    it.store(p, byte_seq(v.fields[k:]))
    return byte_seq(v.fields[:k])


def m_split_off(it, a, ty, callee):
    p, n = a
    v = it.load(p)
    it.require(it.binop('Le', n, usize(len(v.fields))), 'panic', 'split_off out of bounds')
    k = _cap(it, n, len(v.fields))
    it.store(p, byte_seq(v.fields[:k]))
    return byte_seq(v.fields[k:])


def m_advance(it, a, ty, callee):
    p, n = a
    v = it.load(p)
    it.require(it.binop('Le', n, usize(len(v.fields))), 'panic', 'advance past the end of the buffer')
    k = _cap(it, n, len(v.fields))
    it.store(p, byte_seq(v.fields[k:]))
    return UNIT


def m_identity(it, a, ty, callee):
    return a[0]


def m_from_slice(it, a, ty, callee):
    return byte_seq(it.load(a[0]).fields)


def m_from_vec(it, a, ty, callee):
    return byte_seq(a[0].fields)


def m_extend(it, a, ty, callee):
    p, src = a
    v = it.load(p)
    it.store(p, byte_seq(tuple(v.fields) + tuple(as_bytes(it, src))))
    return UNIT


def m_put_u8(it, a, ty, callee):
    p, b = a
    v = it.load(p)
    it.store(p, byte_seq(v.fields + (b,)))
    return UNIT


class ReadBufM(Model):
    __slots__ = ('buf', 'filled')

    def __init__(self, buf, filled=0):
        self.buf = buf          # slice pointer
        self.filled = filled


def m_readbuf_new(it, a, ty, callee):
    return ReadBufM(a[0], 0)


def m_readbuf_filled(it, a, ty, callee):
    rb = deref(it, a[0])
    p = rb.buf
    return Ptr(p.cell, p.path, (p.win[0], rb.filled))


def m_readbuf_remaining(it, a, ty, callee):
    rb = deref(it, a[0])
    return usize(rb.buf.win[1] - rb.filled)


def m_readbuf_put_slice(it, a, ty, callee):
    p, src = a
    rb = it.load(p)
    data = it.load(src).fields
    room = rb.buf.win[1] - rb.filled
    it.require(len(data) <= room, 'panic', 'ReadBuf::put_slice: buffer overflow')
    dst = Ptr(rb.buf.cell, rb.buf.path, (rb.buf.win[0] + rb.filled, len(data)))
    it.store(dst, Seq(data, 'slice'))
    it.store(p, ReadBufM(rb.buf, rb.filled + len(data)))
    return UNIT


PIN = 'std::pin::Pin'


def m_pin_new(it, a, ty, callee):
    return Adt(PIN, 0, [a[0]])


def m_pin_inner(it, a, ty, callee):
    return a[0].fields[0]


def m_pin_as_mut(it, a, ty, callee):
    pin = it.load(a[0])
    return Adt(PIN, 0, [box_ptr(pin.fields[0])])


def m_pin_deref(it, a, ty, callee):
    pin = deref(it, a[0])
    return pin.fields[0] if isinstance(pin, Adt) and pin.ty == PIN else pin


def m_extern(tag):
    def f(it, a, ty, callee):
        return Extern(tag)
    return f


def m_box_forward(it, a, ty, callee):
    """<Box<T> as Trait>::method(Pin<&mut Box<T>> | &mut Box<T>, ...) -> forward to the boxed value's impl"""
    m = re.match(r'^<std::boxed::Box<.*> as (.*)>::(\w+)$', callee, re.S)
    recv = a[0]
    pinned = isinstance(recv, Adt) and recv.ty == PIN
    p = recv.fields[0] if pinned else recv
    box = it.load(p)                # the Box value
    inner_ptr = box_ptr(box)
    rt_ty = it.runtime_type(inner_ptr)
    if rt_ty is None:
        raise Inconclusive('Box<dyn> forward: unknown runtime type')
    new_recv = Adt(PIN, 0, [inner_ptr]) if pinned else inner_ptr
    return it.call('<%s as %s>::%s' % (rt_ty, m.group(1), m.group(2)), [new_recv] + list(a[1:]), ty)


def m_box_pin(it, a, ty, callee):
    return Adt(PIN, 0, [mk_box(a[0])])


def m_future_poll(it, a, ty, callee):
    """<{async fn body of F()} | {async block@span} as Future>::poll -> the lowered coroutine body"""
    m = re.match(r'^<\{async fn body of (.*)\(\)\} as (?:std::future|futures)::Future>::poll$', callee, re.S)
    if m:
        parent = it.resolve(m.group(1))
        if parent is not None:
            name = parent + '::{closure#0}'
            return it.call_body(it.bodies[name], a)
    m = re.match(r'^<(\{async (?:block|closure)[^{}]*\}) as (?:std::future|futures)::Future>::poll$', callee, re.S)
    if m:
        return it.call_body(it.closure_body(m.group(1)), a)
    # opaque `impl Future` / boxed future: dispatch on the run-time value behind the Pin
    recv = a[0]
    p = recv.fields[0] if isinstance(recv, Adt) and recv.ty == PIN else recv
    target = it.load(p) if isinstance(p, Ptr) else p
    if isinstance(target, Adt) and target.ty == PIN:          # a stored `Pin<Box<dyn Future>>`
        target = target.fields[0]
        if isinstance(target, Ptr):
            p = target
            target = it.load(p)
    if isinstance(target, Adt) and target.ty == 'Box':
        p = box_ptr(target)
        target = it.load(p)
    if isinstance(target, Adt) and target.ty.startswith('{'):
        return it.call_body(it.closure_body(target.ty), [Adt(PIN, 0, [p])] + list(a[1:]))
    if isinstance(target, ShutdownFut):
        return m_shutdown_poll(it, p, a[1])
    if isinstance(target, NextFut):
        return m_futures_unordered_poll_next(it, [target.stream, a[1]], ty, callee)
    if hasattr(target, 'rx'):
        from .env import m_recv_poll
        return m_recv_poll(it, [p] + list(a[1:]), ty, callee)
    if hasattr(target, 'chan'):
        from .env import m_send_poll
        return m_send_poll(it, [p] + list(a[1:]), ty, callee)
    raise Inconclusive('Future::poll on %s (%r)' % (callee[:80], target))


def as_bytes(it, v):
    """Bytes / BytesMut / Vec<u8> / &[u8] / &&[u8] / [u8; N] -> tuple of byte Ints"""
    while isinstance(v, Ptr):
        v = it.load(v)
    if isinstance(v, Seq):
        return v.fields
    raise Inconclusive('as_bytes on %r' % (v,))


def m_bytes_eq(it, a, ty, callee):
    x = as_bytes(it, a[0])
    y = as_bytes(it, a[1])
    if len(x) != len(y):
        r = False
    else:
        r = b_and(*[it.veq(p, q) for p, q in zip(x, y)])
    return b_not(r) if callee.endswith('::ne') else r


def m_opt_ref_eq(it, a, ty, callee):
    x, y = deref(it, a[0]), deref(it, a[1])
    if x.variant != y.variant:
        return False
    if x.variant == 0:
        return True
    return it.veq(deref(it, x.fields[0]), deref(it, y.fields[0]))


def m_starts_with(it, a, ty, callee):
    x = as_bytes(it, a[0])
    y = as_bytes(it, a[1])
    if len(y) > len(x):
        return False
    return b_and(*[it.veq(p, q) for p, q in zip(x, y)])


def m_slice_contains_byte(it, a, ty, callee):
    x = as_bytes(it, a[0])
    b = deref(it, a[1])
    return b_or(*[it.veq(p, b) for p in x])


def m_concat(it, a, ty, callee):
    parts = it.load(a[0]).fields
    out = []
    for p in parts:
        out.extend(as_bytes(it, p))
    return Seq(out, 'vec')


def m_poll_next_unpin(it, a, ty, callee):
    """StreamExt::poll_next_unpin(&mut S, cx) = Pin::new(S).poll_next(cx)"""
    m = re.match(r'^<(.*) as futures::StreamExt>::poll_next_unpin$', callee, re.S)
    return it.call('<%s as futures::Stream>::poll_next' % m.group(1), [Adt(PIN, 0, [a[0]]), a[1]], ty)


class NextFut(Model):
    """futures::stream::Next: polling it polls the stream once"""
    __slots__ = ('stream',)

    def __init__(self, stream):
        self.stream = stream


def m_stream_next(it, a, ty, callee):
    return NextFut(a[0])


class SelectNextSomeFut(Model):
    """futures::stream::SelectNextSome: Ready(item) when the stream yields one, otherwise Pending"""
    __slots__ = ('stream',)

    def __init__(self, stream):
        self.stream = stream


def m_select_next_some(it, a, ty, callee):
    return SelectNextSomeFut(a[0])


def _stream_poll_next(it, stream_ty, stream_ptr, cx):
    while isinstance(it.load(stream_ptr), Ptr):
        stream_ptr = it.load(stream_ptr)
    if stream_ty.startswith('futures::stream::FuturesUnordered<'):
        return m_futures_unordered_poll_next(it, [stream_ptr, cx], None, '')
    return it.call('<%s as futures::Stream>::poll_next' % stream_ty, [Adt(PIN, 0, [stream_ptr]), cx], None)


def m_next_poll(it, a, ty, callee):
    """<Next<'_, S> as Future>::poll: one poll of S"""
    m = re.match(r"^<futures::stream::Next<'_, (.*)> as (?:std::future|futures)::Future>::poll$", callee, re.S)
    p = a[0].fields[0] if isinstance(a[0], Adt) and a[0].ty == PIN else a[0]
    fut = it.load(p)
    return _stream_poll_next(it, m.group(1), fut.stream, a[1])


def m_select_next_some_poll(it, a, ty, callee):
    m = re.match(r"^<futures::stream::SelectNextSome<'_, (.*)> as (?:std::future|futures)::Future>::poll$", callee, re.S)
    p = a[0].fields[0] if isinstance(a[0], Adt) and a[0].ty == PIN else a[0]
    fut = it.load(p)
    r = _stream_poll_next(it, m.group(1), fut.stream, a[1])
    POLL = 'std::task::Poll'
    if r.variant == 0 and r.fields[0].variant == 1:
        return Adt(POLL, 0, [r.fields[0].fields[0]])
    return Adt(POLL, 1, ())


class PollFnM(Model):
    """std::future::PollFn: polling it calls the closure"""
    __slots__ = ('closure',)

    def __init__(self, closure):
        self.closure = closure


def m_poll_fn(it, a, ty, callee):
    return PollFnM(a[0])


def m_poll_fn_poll(it, a, ty, callee):
    p = a[0].fields[0] if isinstance(a[0], Adt) and a[0].ty == PIN else a[0]
    fut = it.load(p)
    return it.call_value(fut.closure, [a[1]], ty)


def poll_value(it, fut_ptr, cx):
    """poll the future stored behind fut_ptr (coroutine / model future)"""
    return m_future_poll(it, [Adt(PIN, 0, [fut_ptr]), cx], None, '<impl std::future::Future<Output = ()> as futures::Future>::poll')


def m_futures_unordered_poll_next(it, a, ty, callee):
    """FuturesUnordered::poll_next: the ready future that is returned first is solver-chosen (any rotation of the set)"""
    recv, cx = a
    p = recv.fields[0] if isinstance(recv, Adt) and recv.ty == PIN else recv
    while isinstance(it.load(p), Ptr):
        p = it.load(p)
    futs = it.load(p)
    POLL = 'std::task::Poll'
    n = len(futs.fields)
    if n == 0:
        return Adt(POLL, 0, [opt_none()])
    # which ready future is served first: solver-chosen by default (every completion order); units whose futures all re-arm
    # themselves can ask for the real implementation's order instead (FIFO ready queue = push order), which the native
    # replay then reproduces exactly
    start = 0 if (n <= 1 or int(it.params.get('fifo_futures', 0)) == 1) else it.choose(n)
    for j in range(n):
        i = (start + j) % n
        r = poll_value(it, Ptr(p.cell, p.path + (i,)), cx)
        if r.variant == 0:
            cur = it.load(p)
            it.store(p, Seq(cur.fields[:i] + cur.fields[i + 1:], cur.kind))
            return Adt(POLL, 0, [opt_some(r.fields[0])])
    return Adt(POLL, 1, ())


class ShutdownFut(Model):
    """tokio::io::util::Shutdown: polling it polls `poll_shutdown` of the writer"""
    __slots__ = ('writer',)

    def __init__(self, writer):
        self.writer = writer


def m_shutdown(it, a, ty, callee):
    return ShutdownFut(a[0])


def m_shutdown_poll(it, p, cx):
    fut = it.load(p) if isinstance(p, Ptr) else p
    w = fut.writer
    target = it.load(w)
    if isinstance(target, Adt) and target.ty == 'Box':
        w = box_ptr(target)
    rt = it.runtime_type(w)
    return it.call('<%s as tokio::io::AsyncWrite>::poll_shutdown' % rt, [Adt(PIN, 0, [w]), cx], None)


def m_to_vec(it, a, ty, callee):
    return Seq(as_bytes(it, a[0]), 'vec')


def m_bytes_slice(it, a, ty, callee):
    """Bytes::slice(range) -> Bytes"""
    from .seq import _range_bounds
    v = deref_bytes(it, a[0])
    lo, hi = _range_bounds(it, a[1], len(v))
    it.require(lo <= hi, 'panic', 'Bytes::slice: range start after end')
    return byte_seq(v[lo:hi])


def deref_bytes(it, p):
    v = p
    while isinstance(v, Ptr):
        v = it.load(v)
    return v.fields


def install(it):
    A = it.add_model
    A(r'(?:std|core)::slice::<impl \[u8\]>::to_vec', m_to_vec)
    A(r'bytes::Bytes::to_vec', m_to_vec)
    A(r'<std::vec::Vec<u8> as std::convert::From<&\[u8\]>>::from', m_to_vec)
    A(r'<.* as futures::StreamExt>::next', m_stream_next)
    A(r'<futures::stream::FuturesUnordered<.*> as futures::Stream>::poll_next', m_futures_unordered_poll_next)
    A(r"<futures::stream::Next<'_, .*> as (?:std::future|futures)::Future>::poll", m_next_poll)
    A(r'<.* as futures::StreamExt>::select_next_some', m_select_next_some)
    A(r"<futures::stream::SelectNextSome<'_, .*> as (?:std::future|futures)::Future>::poll", m_select_next_some_poll)
    A(r'std::future::poll_fn::<.*>', m_poll_fn)
    A(r'<std::future::PollFn<.*> as (?:std::future|futures)::Future>::poll', m_poll_fn_poll)
    A(r'tokio::macros::support::poll_budget_available', lambda it, a, ty, c: Adt('std::task::Poll', 0, [UNIT]))
    A(r'tokio::macros::support::thread_rng_n', lambda it, a, ty, c: Int(int(it.params.get('select_start', 0)) % max(1, a[0].v), 32))
    A(r'<.* as tokio::io::AsyncWriteExt>::shutdown', m_shutdown)
    A(r"<tokio::io::util::shutdown::Shutdown<'_, .*> as (?:std::future|futures)::Future>::poll", m_future_poll)
    A(r'<.* as std::future::IntoFuture>::into_future', lambda it, a, ty, c: a[0])
    A(r'<.* as futures::StreamExt>::poll_next_unpin', m_poll_next_unpin)
    A(r'(?:std|core)::slice::<impl \[&\[u8\]\]>::concat::<u8>', m_concat)
    A(r'<bytes::(Bytes|BytesMut) as std::convert::Into<std::vec::Vec<u8>>>::into', m_to_vec)
    A(r'<std::vec::Vec<u8> as std::convert::From<bytes::(Bytes|BytesMut)>>::from', m_to_vec)
    A(r'bytes::Bytes::slice::<.*>', m_bytes_slice)
    A(r'<bytes::(Bytes|BytesMut) as std::clone::Clone>::clone', lambda it, a, ty, c: it.load(a[0]))
    A(r'<bytes::(Bytes|BytesMut) as std::cmp::PartialEq<.*>>::(eq|ne)', m_bytes_eq)
    A(r'<&?\[u8\] as std::cmp::PartialEq<\[u8; \d+\]>>::(eq|ne)', m_bytes_eq)
    A(r'<&\[u8\] as std::cmp::PartialEq(<.*>)?>::(eq|ne)', m_bytes_eq)
    A(r'<\[u8\] as std::cmp::PartialEq(<.*>)?>::(eq|ne)', m_bytes_eq)
    A(r'<std::option::Option<&u8> as std::cmp::PartialEq>::eq', m_opt_ref_eq)
    A(r'core::slice::<impl \[u8\]>::starts_with', m_starts_with)
    A(r'core::slice::<impl \[u8\]>::contains', m_slice_contains_byte)
    A(r'<bytes::(Bytes|BytesMut) as bytes::BufMut>::put::<.*>', m_extend)
    A(r'bytes::BytesMut::reserve', lambda it, a, ty, c: UNIT)
    A(r'std::boxed::Box::<.*>::pin', m_box_pin)
    A(r'<\{async .*\} as (?:std::future|futures)::Future>::poll', m_future_poll)
    A(r'<impl std::future::Future<.*> as (?:std::future|futures)::Future>::poll', m_future_poll)
    A(r'<\{coroutine@.*\} as (?:std::future|futures)::Future>::poll', m_future_poll)
    A(r'<std::pin::Pin<std::boxed::Box<dyn (?:std::future|futures)::Future<.*> as (?:std::future|futures)::Future>::poll', m_future_poll)
    A(r'bytes::BytesMut::zeroed', m_zeroed)
    A(r'bytes::(BytesMut|Bytes)::clear', lambda it, a, ty, c: (it.store(a[0], byte_seq(())), UNIT)[1])
    A(r'bytes::BytesMut::resize', m_resize)
    A(r'bytes::(BytesMut|Bytes)::(new|with_capacity)', m_new)
    A(r'<bytes::(BytesMut|Bytes) as std::ops::Deref(Mut)?>::deref(_mut)?', m_deref)
    A(r'<bytes::(BytesMut|Bytes) as std::convert::AsRef<\[u8\]>>::as_ref', m_deref)
    A(r'bytes::(BytesMut|Bytes)::len', m_len)
    A(r'bytes::(BytesMut|Bytes)::is_empty', m_is_empty)
    A(r'bytes::(BytesMut|Bytes)::truncate', m_truncate)
    A(r'bytes::(BytesMut|Bytes)::split_to', m_split_to)
    A(r'bytes::(BytesMut|Bytes)::split_off', m_split_off)
    A(r'<bytes::(BytesMut|Bytes) as bytes::Buf>::advance', m_advance)
    A(r'bytes::BytesMut::freeze', m_identity)
    A(r'<bytes::(BytesMut|Bytes) as std::convert::From<&\[u8\]>>::from', m_from_slice)
    A(r'bytes::Bytes::copy_from_slice', m_from_slice)
    A(r'bytes::Bytes::from_static', m_from_slice)
    A(r'<bytes::(BytesMut|Bytes) as std::convert::From<std::vec::Vec<u8>>>::from', m_from_vec)
    A(r'<bytes::Bytes as std::convert::From<bytes::BytesMut>>::from', m_identity)
    A(r'bytes::BytesMut::extend_from_slice', m_extend)
    A(r'<bytes::BytesMut as bytes::BufMut>::put_slice', m_extend)
    A(r'<bytes::BytesMut as bytes::BufMut>::put_u8', m_put_u8)
    A(r"tokio::io::ReadBuf::<'_>::new", m_readbuf_new)
    A(r"tokio::io::ReadBuf::<'_>::filled", m_readbuf_filled)
    A(r"tokio::io::ReadBuf::<'_>::remaining", m_readbuf_remaining)
    A(r"tokio::io::ReadBuf::<'_>::put_slice", m_readbuf_put_slice)
    A(r'std::pin::Pin::<.*>::(new|new_unchecked)', m_pin_new)
    A(r'std::pin::Pin::<.*>::(into_inner|get_mut|get_ref|get_unchecked_mut|into_inner_unchecked)', m_pin_inner)
    A(r'std::pin::Pin::<.*>::as_mut', m_pin_as_mut)
    A(r'<std::pin::Pin<.*> as std::ops::Deref(Mut)?>::deref(_mut)?', m_pin_deref)
    A(r'std::ptr::null(_mut)?::<.*>', m_extern('null'))
    A(r'std::task::Waker::from_raw', m_extern('waker'))
    A(r'std::task::RawWaker::new', m_extern('raw-waker'))
    A(r'std::task::RawWakerVTable::new', m_extern('vtable'))
    A(r"std::task::Context::<'_>::from_waker", m_extern('context'))
    A(r"std::task::Context::<'_>::waker", m_extern('waker'))
    A(r'<std::task::Waker as std::clone::Clone>::clone', m_extern('waker'))
    A(r'std::task::Waker::(wake|wake_by_ref)', lambda it, a, ty, c: UNIT)
    A(r'<std::boxed::Box<.*> as (tokio::io::Async\w+|futures::\w+|std::future::Future)>::\w+', m_box_forward)
