"""cid::{Cid, Version} and multihash_codetable::Code models.

Hash functions: for concrete data the real digest is computed where Python's hashlib has the function (sha2, sha3,
blake2b); Keccak (not in hashlib) gets a deterministic stand-in of the right length. No check depends on the digest
*value*: the code under test and the harness' reference both obtain it from the same model."""
import hashlib
import z3

from ..interp import Inconclusive, b_and
from ..values import Int, UNIT, Adt, Seq, Cell, Ptr, Model, res_ok, res_err, usize
from .core import deref
from .maddr import Mh, as_mh

# codes compiled into litep2p (Cargo.toml: multihash-codetable features sha2, blake2b, sha3) -> digest length
CODES = {0x12: 32, 0x13: 64, 0x14: 64, 0x15: 48, 0x16: 32, 0x17: 28, 0x1a: 28, 0x1b: 32, 0x1c: 48, 0x1d: 64,
         0xb220: 32, 0xb240: 64}
NAMES = {'Sha2_256': 0x12, 'Sha2_512': 0x13, 'Sha3_512': 0x14, 'Sha3_384': 0x15, 'Sha3_256': 0x16, 'Sha3_224': 0x17,
         'Keccak224': 0x1a, 'Keccak256': 0x1b, 'Keccak384': 0x1c, 'Keccak512': 0x1d, 'Blake2b256': 0xb220, 'Blake2b512': 0xb240}


def digest_of(code, data):
    n = CODES[code]
    if code == 0x12:
        return hashlib.sha256(data).digest()
    if code == 0x13:
        return hashlib.sha512(data).digest()
    if code in (0x14, 0x15, 0x16, 0x17):
        return {0x14: hashlib.sha3_512, 0x15: hashlib.sha3_384, 0x16: hashlib.sha3_256, 0x17: hashlib.sha3_224}[code](data).digest()
    if code in (0xb220, 0xb240):
        return hashlib.blake2b(data, digest_size=n).digest()
    return hashlib.shake_256(b'keccak-standin' + bytes([code]) + data).digest(n)


class CodeM(Model):
    __slots__ = ('code',)
    rust_type = 'multihash_codetable::Code'

    def __init__(self, code):
        self.code = code

    def eq_model(self, it, other):
        return isinstance(other, CodeM) and other.code == self.code

    def __repr__(self):
        return 'Code(%#x)' % self.code


def code_of(v):
    if isinstance(v, CodeM):
        return v.code
    txt = getattr(v, 'what', None) or repr(v)
    for k, c in NAMES.items():
        if k in txt:
            return c
    if 'Identity' in txt:
        return 0
    raise Inconclusive('multihash code of %r' % (v,))


def m_code_try_from(it, a, ty, callee):
    x = a[0]
    if x.conc:
        return res_ok(CodeM(x.v)) if x.v in CODES else res_err(Adt('multihash::Error', 0, ()))
    codes = sorted(CODES)
    conds = [x.z() == z3.BitVecVal(c, 64) for c in codes]
    conds.append(z3.And(*[z3.Not(c) for c in conds]))
    k = it.choose(len(conds), conds)
    return res_ok(CodeM(codes[k])) if k < len(codes) else res_err(Adt('multihash::Error', 0, ()))


def m_code_to_u64(it, a, ty, callee):
    return Int(code_of(deref(it, a[0])), 64)


def m_code_digest(it, a, ty, callee):
    code = code_of(deref(it, a[0]))
    data = a[1]
    while isinstance(data, Ptr):
        data = it.load(data)
    bs = data.fields
    if not all(b.conc for b in bs):
        raise Inconclusive('Code::digest of symbolic data')
    d = digest_of(code, bytes(b.v for b in bs))
    return Mh(Int(code, 64), [Int(x, 8) for x in d])


VERSION = 'cid::Version'


def m_version_try_from(it, a, ty, callee):
    x = a[0]
    if it.branch(it.veq(x, Int(0, 64))):
        return res_ok(Adt(VERSION, 0, ()))
    if it.branch(it.veq(x, Int(1, 64))):
        return res_ok(Adt(VERSION, 1, ()))
    return res_err(Adt('cid::Error', 0, ()))


def m_version_to_u64(it, a, ty, callee):
    return Int(deref(it, a[0]).variant, 64)


class CidM(Model):
    __slots__ = ('version', 'codec', 'mh')
    rust_type = 'cid::CidGeneric<64>'

    def __init__(self, version, codec, mh):
        self.version = version
        self.codec = codec
        self.mh = mh

    def eq_model(self, it, other):
        if not isinstance(other, CidM) or other.version != self.version:
            return False
        return b_and(it.veq(self.codec, other.codec), it.veq(self.mh, other.mh))

    def __repr__(self):
        return 'Cid(v%d, %r, %r)' % (self.version, self.codec, self.mh)


def m_cid_new(it, a, ty, callee):
    version, codec, mh = a
    mh = as_mh(it, mh)
    if version.variant == 0:
        # CIDv0: dag-pb with a sha2-256 digest of 32 bytes
        ok = it.branch(b_and(it.veq(codec, Int(0x70, 64)), it.veq(mh.code, Int(0x12, 64)))) and len(mh.digest) == 32
        if not ok:
            return res_err(Adt('cid::Error', 0, ()))
        return res_ok(CidM(0, codec, mh))
    return res_ok(CidM(1, codec, mh))


def m_cid_new_v1(it, a, ty, callee):
    return CidM(1, a[0], as_mh(it, a[1]))


def m_cid_eq(it, a, ty, callee):
    r = it.veq(deref(it, a[0]), deref(it, a[1]))
    from ..interp import b_not
    return b_not(r) if callee.endswith('::ne') else r


def _cid(it, p):
    v = deref(it, p)
    if not isinstance(v, CidM):
        raise Inconclusive('Cid operation on %r' % (v,))
    return v


def m_cid_to_bytes(it, a, ty, callee):
    """Cid::to_bytes: v0 = the multihash; v1 = varint(1) varint(codec) multihash"""
    from .maddr import varint_ints, varint_bytes
    c = _cid(it, a[0])
    mhb = varint_ints(it, c.mh.code) + [Int(b, 8) for b in varint_bytes(len(c.mh.digest))] + list(c.mh.digest)
    if c.version == 0:
        return Seq(mhb, 'vec')
    return Seq([Int(1, 8)] + varint_ints(it, c.codec) + mhb, 'vec')


def m_cid_read_bytes(it, a, ty, callee):
    """Cid::read_bytes on a concrete buffer (v1 form, or the bare sha2-256 multihash of v0)"""
    from .maddr import Mh
    p = a[0]
    v = p
    while isinstance(v, Ptr):
        v = it.load(v)
    data = []
    for b in (v.fields if not (isinstance(p, Ptr) and p.win) else v.fields[p.win[0]:p.win[0] + p.win[1]]):
        if not (isinstance(b, Int) and b.conc):
            raise Inconclusive('Cid::read_bytes over symbolic bytes')
        data.append(b.v)

    def varint(pos):
        val = 0
        for i in range(10):
            if pos + i >= len(data):
                return None
            val |= (data[pos + i] & 0x7F) << (7 * i)
            if data[pos + i] < 0x80:
                return val, pos + i + 1
        return None
    err = res_err(Adt('cid::Error', 0, ()))
    if len(data) >= 2 and data[0] == 0x12 and data[1] == 0x20:
        if len(data) < 34:
            return err
        return res_ok(CidM(0, Int(0x70, 64), Mh(Int(0x12, 64), [Int(b, 8) for b in data[2:34]])))
    r = varint(0)
    if r is None or r[0] != 1:
        return err
    r2 = varint(r[1])
    if r2 is None:
        return err
    r3 = varint(r2[1])
    if r3 is None:
        return err
    r4 = varint(r3[1])
    if r4 is None or r4[0] > 64 or r4[1] + r4[0] > len(data):
        return err
    return res_ok(CidM(1, Int(r2[0], 64), Mh(Int(r3[0], 64), [Int(b, 8) for b in data[r4[1]:r4[1] + r4[0]]])))


def install(it):
    A0 = it.add_model
    A0(r'cid::CidGeneric::<64>::codec', lambda it, a, ty, c: _cid(it, a[0]).codec)
    A0(r'cid::CidGeneric::<64>::version', lambda it, a, ty, c: Adt(VERSION, _cid(it, a[0]).version, ()))
    A0(r'cid::CidGeneric::<64>::hash', lambda it, a, ty, c: Ptr(Cell('mh', _cid(it, a[0]).mh)))
    A0(r'cid::CidGeneric::<64>::to_bytes', m_cid_to_bytes)
    A0(r'cid::CidGeneric::<64>::read_bytes::<.*>', m_cid_read_bytes)
    A0(r'<cid::CidGeneric<64> as std::clone::Clone>::clone', lambda it, a, ty, c: _cid(it, a[0]))
    it.adts.defs[VERSION] = [('V0', [], 0), ('V1', [], 1)]
    A = it.add_model
    A(r'<multihash_codetable::Code as std::convert::TryFrom<u64>>::try_from', m_code_try_from)
    A(r'<u64 as std::convert::From<multihash_codetable::Code>>::from', m_code_to_u64)
    A(r'<multihash_codetable::Code as multihash_codetable::MultihashDigest<64>>::digest', m_code_digest)
    A(r'<multihash_codetable::Code as multihash_derive::MultihashDigest<64>>::digest', m_code_digest)
    A(r'<cid::Version as std::convert::TryFrom<u64>>::try_from', m_version_try_from)
    A(r'<u64 as std::convert::From<cid::Version>>::from', m_version_to_u64)
    A(r'<cid::Version as std::convert::Into<u64>>::into', m_version_to_u64)
    A(r'cid::CidGeneric::<64>::new', m_cid_new)
    A(r'cid::CidGeneric::<64>::new_v1', m_cid_new_v1)
    A(r'<cid::CidGeneric<64> as std::cmp::PartialEq>::(eq|ne)', m_cid_eq)
    A(r'<&cid::CidGeneric<64> as std::cmp::PartialEq>::(eq|ne)', m_cid_eq)
