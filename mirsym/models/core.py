"""Core library models: tracing, Clone/PartialEq on library types, Option/Result helpers, Try,
smart pointers, locks, collections (association-list models)."""
import re
import z3

from ..interp import Inconclusive, Violation, b_not, b_and, b_or
from ..values import Int, UNIT, Adt, Tup, Seq, Cell, Ptr, FnItem, Extern, Model, usize, opt_none, opt_some, res_ok, res_err


class Atom(Model):
    """opaque value identified by a solver term (multiaddr, multihash, ... when used as identities)"""
    __slots__ = ('sort', 'v')

    @property
    def rust_type(self):
        return {'multihash': 'multihash::Multihash<64>', 'multiaddr': 'multiaddr::Multiaddr'}.get(self.sort)

    def __init__(self, sort, v):
        self.sort = sort
        self.v = v

    def eq_model(self, it, other):
        if not isinstance(other, Atom):
            return False
        if isinstance(self.v, int) and isinstance(other.v, int):
            return self.v == other.v
        a = self.v if not isinstance(self.v, int) else z3.BitVecVal(self.v, other.v.size())
        b = other.v if not isinstance(other.v, int) else z3.BitVecVal(other.v, a.size())
        return a == b

    def __repr__(self):
        return '%s(%s)' % (self.sort, self.v)


class MapModel(Model):
    """association list with pairwise-distinct keys; .fields are the values (pointers may project)"""
    __slots__ = ('keys', 'fields', 'kind')

    def __init__(self, keys=(), vals=(), kind='map'):
        self.keys = tuple(keys)
        self.fields = tuple(vals)
        self.kind = kind

    def with_field(self, i, v):
        f = list(self.fields)
        f[i] = v
        return MapModel(self.keys, f, self.kind)

    def find(self, it, key):
        """index of key or None (forks)"""
        for i, k in enumerate(self.keys):
            if it.branch(it.veq(k, key)):
                return i
        return None

    def __repr__(self):
        return '%s%s' % (self.kind, list(zip(self.keys, self.fields)))


class SetModel(Model):
    __slots__ = ('fields',)

    def __init__(self, elems=()):
        self.fields = tuple(elems)

    def find(self, it, x):
        for i, e in enumerate(self.fields):
            if it.branch(it.veq(e, x)):
                return i
        return None

    def eq_model(self, it, other):
        if not isinstance(other, SetModel) or len(other.fields) != len(self.fields):
            return False
        # elements of a set are pairwise distinct, so equal sizes + inclusion = equality
        return b_and(*[b_or(*[it.veq(x, y) for y in other.fields]) for x in self.fields])

    def __repr__(self):
        return 'set%s' % (list(self.fields),)


class IterModel(Model):
    """simple iterator over a materialised list of items"""
    __slots__ = ('items', 'pos')

    def __init__(self, items, pos=0):
        self.items = tuple(items)
        self.pos = pos


def deref(it, p):
    return it.load(p) if isinstance(p, Ptr) else p


def m_false(it, a, ty, callee):
    return False


def m_unit(it, a, ty, callee):
    return UNIT


def m_clone(it, a, ty, callee):
    return deref(it, a[0])


def m_identity(it, a, ty, callee):
    return a[0]


def m_deref_ptr(it, a, ty, callee):
    """&SmartPtr -> &Inner where the smart pointer value *is* a Ptr to the inner cell"""
    inner = deref(it, a[0])
    if isinstance(inner, Adt) and inner.ty == 'Box':
        return inner.fields[0].fields[0]
    if isinstance(inner, Ptr):
        return inner
    return a[0]


def m_eq(it, a, ty, callee):
    return it.veq(deref(it, a[0]), deref(it, a[1]))


def m_ne(it, a, ty, callee):
    return b_not(it.veq(deref(it, a[0]), deref(it, a[1])))


def typed_eq(it, ty, x, y):
    """equality as `<ty as PartialEq>::eq` would compute it, dispatching to crate impls for element types"""
    from .. import mir
    from ..values import INT_TYPES
    ty = ty.strip()
    while ty.startswith('&'):
        ty = re.sub(r"^&(?:'\w+ )?(?:mut )?", '', ty)
        x = deref(it, x)
        y = deref(it, y)
    if ty in INT_TYPES or ty == 'bool' or ty == '()':
        return it.veq(x, y)
    if ty.startswith('std::option::Option<'):
        inner = ty[len('std::option::Option<'):-1]
        if x.variant != y.variant:
            return False
        return True if x.variant == 0 else typed_eq(it, inner, x.fields[0], y.fields[0])
    if ty.startswith('std::result::Result<'):
        parts = mir.split_top(ty[len('std::result::Result<'):-1])
        if x.variant != y.variant:
            return False
        return typed_eq(it, parts[x.variant], x.fields[0], y.fields[0])
    m = re.match(r'^(?:std::vec::Vec|std::collections::VecDeque)<(.*)>$', ty, re.S) or re.match(r'^\[(.*?)(?:; \d+)?\]$', ty, re.S)
    if m:
        if len(x.fields) != len(y.fields):
            return False
        if m.group(1).strip() in INT_TYPES:
            # byte strings: compare concrete elements directly, keep only the symbolic comparisons
            sym = []
            for p, q in zip(x.fields, y.fields):
                if p is q:
                    continue
                if isinstance(p, Int) and isinstance(q, Int) and p.conc and q.conc:
                    if p.v != q.v:
                        return False
                else:
                    sym.append(it.veq(p, q))
            return b_and(*sym) if sym else True
        return b_and(*[typed_eq(it, m.group(1), p, q) for p, q in zip(x.fields, y.fields)])
    if ty.startswith('(') and ty.endswith(')'):
        parts = mir.split_top(ty[1:-1])
        return b_and(*[typed_eq(it, t, p, q) for t, p, q in zip(parts, x.fields, y.fields)])
    return it.call('<%s as std::cmp::PartialEq>::eq' % ty, [_as_ref(x), _as_ref(y)], 'bool')


def _as_ref(v):
    return Ptr(Cell('tmp', v))


def m_generic_eq(it, a, ty, callee):
    m = re.match(r'^<(.*) as std::cmp::PartialEq(?:<.*>)?>::(eq|ne)$', callee, re.S)
    x, y = deref(it, a[0]), deref(it, a[1])
    if re.match(r'^(?:std::vec::Vec<|\[)', m.group(1)):
        # `Vec<T> == &[T]` and friends: the right-hand side may be a reference to a slice reference
        while isinstance(x, Ptr):
            x = it.load(x)
        while isinstance(y, Ptr):
            y = it.load(y)
    r = typed_eq(it, m.group(1), x, y)
    return r if m.group(2) == 'eq' else b_not(r)


# ---- Option / Result -------------------------------------------------------------------------

def m_is_variant(v):
    def f(it, a, ty, callee):
        return deref(it, a[0]).variant == v
    return f


def m_unwrap(it, a, ty, callee):
    o = a[0]
    if o.variant != (1 if 'Option' in o.ty else 0):
        raise Violation('panic', 'unwrap/expect on %s in %s' % ('None' if 'Option' in o.ty else 'Err', callee[:60]), it.current_model())
    return o.fields[0]


def m_unwrap_or(it, a, ty, callee):
    o = a[0]
    good = 1 if 'Option' in o.ty else 0
    return o.fields[0] if o.variant == good else a[1]


def m_ok_or(it, a, ty, callee):
    o = a[0]
    return res_ok(o.fields[0]) if o.variant == 1 else res_err(a[1])


def m_opt_take(it, a, ty, callee):
    v = it.load(a[0])
    it.store(a[0], opt_none())
    return v


def m_opt_map(it, a, ty, callee):
    o = a[0]
    if 'Option' in o.ty:
        return opt_some(it.call_value(a[1], [o.fields[0]], None)) if o.variant == 1 else o
    return res_ok(it.call_value(a[1], [o.fields[0]], None)) if o.variant == 0 else o


def m_map_err(it, a, ty, callee):
    o = a[0]
    if o.ty.endswith('Poll'):
        if o.variant == 1:
            return o
        inner = o.fields[0]
        if inner.variant == 1:
            return Adt(o.ty, 0, [res_err(it.call_value(a[1], [inner.fields[0]], None))])
        return o
    return res_err(it.call_value(a[1], [o.fields[0]], None)) if o.variant == 1 else o


def m_then_some(it, a, ty, callee):
    c = a[0]
    return opt_some(a[1]) if it.branch(c) else opt_none()


def m_try_branch(it, a, ty, callee):
    v = a[0]
    CF = 'std::ops::ControlFlow'
    if 'Option' in v.ty:
        return Adt(CF, 0, [v.fields[0]]) if v.variant == 1 else Adt(CF, 1, [v])
    if v.ty.endswith('Result'):
        return Adt(CF, 0, [v.fields[0]]) if v.variant == 0 else Adt(CF, 1, [v])
    if v.ty.endswith('Poll'):
        # Poll<Result<T,E>>: Ready(Ok(t)) -> Continue(Ready(t)), Ready(Err(e)) -> Break(Err(e)), Pending -> Continue(Pending)
        if v.variant == 1:
            return Adt(CF, 0, [v])
        inner = v.fields[0]
        if inner.ty.endswith('Result'):
            return Adt(CF, 0, [Adt(v.ty, 0, [inner.fields[0]])]) if inner.variant == 0 else Adt(CF, 1, [inner])
        if 'Option' in inner.ty:   # Poll<Option<Result<T,E>>>
            if inner.variant == 0:
                return Adt(CF, 0, [v])
            r = inner.fields[0]
            return Adt(CF, 0, [Adt(v.ty, 0, [opt_some(r.fields[0])])]) if r.variant == 0 else Adt(CF, 1, [r])
    raise Inconclusive('Try::branch on ' + repr(v))


def m_from_residual(it, a, ty, callee):
    r = a[0]
    if 'Option' in r.ty:
        return opt_none()
    # Result<Infallible, E> -> Result<T, F> via From<E> for F ; possibly wrapped in Poll / Poll<Option>
    m = re.search(r'FromResidual<std::result::Result<std::convert::Infallible, (.*)>>>::from_residual$', callee, re.S)
    e = r.fields[0]
    src = m.group(1) if m else None
    mm = re.match(r'^<(.*) as std::ops::FromResidual', callee, re.S)
    out_ty = mm.group(1) if mm else ''
    tgt = _err_type_of(out_ty)
    if src is not None and tgt is not None and src.strip() != tgt.strip():
        e = it.call('<%s as std::convert::From<%s>>::from' % (tgt.strip(), src.strip()), [e], None)
    v = res_err(e)
    if out_ty.startswith('std::task::Poll<std::option::Option<'):
        return Adt('std::task::Poll', 0, [opt_some(v)])
    if out_ty.startswith('std::task::Poll<'):
        return Adt('std::task::Poll', 0, [v])
    return v


def _err_type_of(ty):
    """second generic argument of the innermost std::result::Result<..> in ty"""
    k = ty.find('std::result::Result<')
    if k < 0:
        return None
    from .. import mir
    j = mir.match_bracket(ty, k + len('std::result::Result'))
    parts = mir.split_top(ty[k + len('std::result::Result<'):j])
    return parts[1] if len(parts) == 2 else None


def m_from_identity(it, a, ty, callee):
    return a[0]


def m_mem_replace(it, a, ty, callee):
    old = it.load(a[0])
    it.store(a[0], a[1])
    return old


def m_mem_take_default(default_fn):
    def f(it, a, ty, callee):
        old = it.load(a[0])
        it.store(a[0], default_fn())
        return old
    return f


def m_saturating(op):
    def f(it, a, ty, callee):
        x, y = a
        w = x.w
        lo, hi = (-(1 << (w - 1)), (1 << (w - 1)) - 1) if x.s else (0, (1 << w) - 1)
        if x.conc and y.conc:
            r = x.sval() + y.sval() if op == 'add' else x.sval() - y.sval() if op == 'sub' else x.sval() * y.sval()
            return Int(max(lo, min(r, hi)), w, x.s)
        if op == 'mul':
            raise Inconclusive('saturating_mul of symbolic operands')
        ext = z3.SignExt if x.s else z3.ZeroExt
        zx, zy = ext(2, x.z()), ext(2, y.z())
        r = zx + zy if op == 'add' else zx - zy
        zlo, zhi = z3.BitVecVal(lo, w + 2), z3.BitVecVal(hi, w + 2)
        clamped = z3.If(r < zlo, zlo, z3.If(r > zhi, zhi, r))
        return Int(z3.Extract(w - 1, 0, clamped), w, x.s)
    return f


def m_tuple_cmp(it, a, ty, callee):
    """<(A, B, ..) as Ord>::cmp: lexicographic, each component compared by its own Ord"""
    from .. import mir
    m = re.match(r'^<\((.*)\) as std::cmp::Ord>::cmp$', callee, re.S)
    parts = [t.strip() for t in mir.split_top(m.group(1)) if t.strip()]
    x, y = a
    ORD = 'std::cmp::Ordering'
    for i, t in enumerate(parts):
        xi, yi = Ptr(x.cell, x.path + (i,)), Ptr(y.cell, y.path + (i,))
        if t == 'bool':
            bx, by = it.load(xi), it.load(yi)
            if it.branch(it.veq(bx, by)):
                continue
            # differ: false < true
            return Adt(ORD, 0, ()) if it.branch(b_not(it.to_z3bool(bx)) if not isinstance(bx, bool) else (not bx)) else Adt(ORD, 2, ())
        r = it.call('<%s as std::cmp::Ord>::cmp' % t, [xi, yi], ORD)
        if isinstance(r, Adt):
            if r.variant != 1:
                return r
            continue
        raise Inconclusive('tuple comparison with a symbolic component ordering')
    return Adt(ORD, 1, ())


def m_get_or_insert_with(it, a, ty, callee):
    """Option::get_or_insert_with(&mut self, f) -> &mut T"""
    p, f = a
    v = it.load(p)
    if v.variant == 0:
        it.store(p, opt_some(it.call_value(f, [], None)))
    return Ptr(p.cell, p.path + (0,))


def m_mem_take(it, a, ty, callee):
    """std::mem::take(&mut T) for the collection / Option types the code under test uses it on"""
    p = a[0]
    v = it.load(p)
    if isinstance(v, Seq):
        it.store(p, Seq((), v.kind))
    elif isinstance(v, Adt) and v.ty == 'std::option::Option':
        it.store(p, opt_none())
    elif isinstance(v, MapModel):
        it.store(p, MapModel(kind=v.kind))
    elif isinstance(v, SetModel):
        it.store(p, SetModel())
    elif isinstance(v, Int):
        it.store(p, Int(0, v.w, v.s))
    else:
        raise Inconclusive('std::mem::take of %r' % (v,))
    return v


def m_checked_sub(it, a, ty, callee):
    x, y = a
    lt = it.binop('Lt', x, y)
    if it.branch(lt):
        return opt_none()
    return opt_some(it.binop('Sub', x, y))


def m_ref_int_cmp(it, a, ty, callee):
    x, y = a
    while isinstance(x, Ptr):
        x = it.load(x)
    while isinstance(y, Ptr):
        y = it.load(y)
    op = {'lt': 'Lt', 'le': 'Le', 'gt': 'Gt', 'ge': 'Ge'}[callee.rsplit('::', 1)[1]]
    return it.binop(op, x, y)


def m_min_max(which):
    def f(it, a, ty, callee):
        x, y = a
        le = it.binop('Le', x, y)
        if it.branch(le):
            return x if which == 'min' else y
        return y if which == 'min' else x
    return f


# ---- collections ------------------------------------------------------------------------------

def m_new_map(it, a, ty, callee):
    return MapModel(kind='btree' if 'BTreeMap' in callee else 'map')


def m_new_set(it, a, ty, callee):
    return SetModel()


def m_new_seq(it, a, ty, callee):
    return Seq((), 'vec')


def m_len(it, a, ty, callee):
    return usize(len(deref(it, a[0]).fields))


def m_is_empty(it, a, ty, callee):
    return len(deref(it, a[0]).fields) == 0


def m_set_insert(it, a, ty, callee):
    sp, x = a
    s = it.load(sp)
    if s.find(it, x) is not None:
        return False
    it.store(sp, SetModel(s.fields + (x,)))
    return True


def m_set_extend(it, a, ty, callee):
    from .seq import drain, as_lazy, m_into_iter
    sp, src = a
    s = it.load(sp)
    src_it = src if isinstance(src, IterModel) else m_into_iter(it, [src], None, callee)
    for x in drain(it, as_lazy(src_it)):
        if isinstance(x, Ptr):
            x = it.load(x)
        if s.find(it, x) is None:
            s = SetModel(s.fields + (x,))
    it.store(sp, s)
    return UNIT


def m_map_retain(it, a, ty, callee):
    mp, f = a
    m = it.load(mp)
    keys, vals = [], []
    for k, v in zip(m.keys, m.fields):
        vc = Cell('val', v)
        if it.branch(it.call_value(f, [Ptr(Cell('key', k)), Ptr(vc)], None)):
            keys.append(k)
            vals.append(vc.val)
    it.store(mp, MapModel(keys, vals, m.kind))
    return UNIT


def m_set_from_iter(it, a, ty, callee):
    cell = Cell('set', SetModel())
    m_set_extend(it, [Ptr(cell), a[0]], ty, callee)
    return cell.val


def m_set_remove(it, a, ty, callee):
    sp, xp = a
    s = it.load(sp)
    i = s.find(it, deref(it, xp))
    if i is None:
        return False
    it.store(sp, SetModel(s.fields[:i] + s.fields[i + 1:]))
    return True


def m_set_contains(it, a, ty, callee):
    return deref(it, a[0]).find(it, deref(it, a[1])) is not None


def m_map_insert(it, a, ty, callee):
    mp, k, v = a
    m = it.load(mp)
    i = m.find(it, k)
    if i is not None:
        old = m.fields[i]
        it.store(mp, m.with_field(i, v))
        return opt_some(old)
    it.store(mp, MapModel(m.keys + (k,), m.fields + (v,), m.kind))
    return opt_none()


def m_map_remove(it, a, ty, callee):
    mp, kp = a
    m = it.load(mp)
    i = m.find(it, deref(it, kp))
    if i is None:
        return opt_none()
    v = m.fields[i]
    it.store(mp, MapModel(m.keys[:i] + m.keys[i + 1:], m.fields[:i] + m.fields[i + 1:], m.kind))
    return opt_some(v)


def m_map_get(mutable):
    def f(it, a, ty, callee):
        mp, kp = a
        m = it.load(mp)
        i = m.find(it, deref(it, kp))
        if i is None:
            return opt_none()
        return opt_some(Ptr(mp.cell, mp.path + (i,)))
    return f


def m_indexmap_get_index_mut(it, a, ty, callee):
    """IndexMap::get_index_mut(i) -> Option<(&K, &mut V)> (insertion order = order of the association list)"""
    mp, idx = a
    m = it.load(mp)
    if not (isinstance(idx, Int) and idx.conc):
        raise Inconclusive('IndexMap::get_index_mut with a symbolic index')
    if idx.v >= len(m.fields):
        return opt_none()
    return opt_some(Tup([Ptr(Cell('key', m.keys[idx.v])), Ptr(mp.cell, mp.path + (idx.v,))]))


def m_map_contains_key(it, a, ty, callee):
    return deref(it, a[0]).find(it, deref(it, a[1])) is not None


class EntryModel(Model):
    __slots__ = ('mp', 'key', 'idx')

    def __init__(self, mp, key, idx):
        self.mp = mp
        self.key = key
        self.idx = idx

    def discriminant(self):      # hash_map::Entry: Occupied = 0, Vacant = 1
        return 0 if self.idx is not None else 1

    @property
    def fields(self):
        return (self,)           # (entry as Occupied).0 / (entry as Vacant).0 project to the same object


def m_map_entry(it, a, ty, callee):
    mp, k = a
    m = it.load(mp)
    return EntryModel(mp, k, m.find(it, k))


def m_entry_or_default(it, a, ty, callee):
    e = a[0]
    if e.idx is not None:
        return Ptr(e.mp.cell, e.mp.path + (e.idx,))
    m = re.search(r"Entry::<'_, (.*)>::or_default$", callee, re.S)
    from .. import mir
    vty = mir.split_top(m.group(1))[1]
    dflt = it.call('<%s as std::default::Default>::default' % vty, [], vty)
    mm = it.load(e.mp)
    it.store(e.mp, MapModel(mm.keys + (e.key,), mm.fields + (dflt,), mm.kind))
    return Ptr(e.mp.cell, e.mp.path + (len(mm.keys),))


def m_occupied_get(it, a, ty, callee):
    e = deref(it, a[0])
    return Ptr(e.mp.cell, e.mp.path + (e.idx,))


def m_occupied_insert(it, a, ty, callee):
    e = deref(it, a[0])
    m = it.load(e.mp)
    old = m.fields[e.idx]
    it.store(e.mp, m.with_field(e.idx, a[1]))
    return old


def m_occupied_remove(it, a, ty, callee):
    e = deref(it, a[0]) if isinstance(a[0], Ptr) else a[0]
    m = it.load(e.mp)
    old = m.fields[e.idx]
    it.store(e.mp, MapModel(m.keys[:e.idx] + m.keys[e.idx + 1:], m.fields[:e.idx] + m.fields[e.idx + 1:], m.kind))
    return old


def m_vacant_insert(it, a, ty, callee):
    e = a[0]
    m = it.load(e.mp)
    it.store(e.mp, MapModel(m.keys + (e.key,), m.fields + (a[1],), m.kind))
    return Ptr(e.mp.cell, e.mp.path + (len(m.keys),))


def m_iter_values(it, a, ty, callee):
    m = deref(it, a[0])
    base = a[0]
    return IterModel([Ptr(base.cell, base.path + (i,)) for i in range(len(m.fields))])


def m_set_iter(it, a, ty, callee):
    s = deref(it, a[0])
    base = a[0]
    return IterModel([Ptr(base.cell, base.path + (i,)) for i in range(len(s.fields))])


def m_into_iter_identity(it, a, ty, callee):
    v = a[0]
    if isinstance(v, IterModel):
        return v
    if isinstance(v, Seq):
        return IterModel(v.fields)
    if isinstance(v, Ptr):
        tgt = it.load(v)
        return IterModel([Ptr(v.cell, v.path + ((v.win[0] if v.win else 0) + i,)) for i in range(len(tgt.fields))])
    raise Inconclusive('into_iter on %r' % (v,))


def m_iter_next(it, a, ty, callee):
    p = a[0]
    im = it.load(p)
    if im.pos >= len(im.items):
        return opt_none()
    it.store(p, IterModel(im.items, im.pos + 1))
    return opt_some(im.items[im.pos])


def m_iter_for_each(it, a, ty, callee):
    im, f = a
    for x in im.items[im.pos:]:
        it.call_value(f, [x], None)
    return UNIT


def _good(o):
    return 1 if 'Option' in o.ty else 0


def m_unwrap_or_else(it, a, ty, callee):
    o = a[0]
    if o.variant == _good(o):
        return o.fields[0]
    args = [] if 'Option' in o.ty else [o.fields[0]]
    return it.call_value(a[1], args, ty)


def m_unwrap_or_default(it, a, ty, callee):
    o = a[0]
    if o.variant == _good(o):
        return o.fields[0]
    return it.call('<%s as std::default::Default>::default' % ty, [], ty)


def m_as_ref(it, a, ty, callee):
    p = a[0]
    o = it.load(p)
    if 'Option' in o.ty:
        return opt_some(Ptr(p.cell, p.path + (0,))) if o.variant == 1 else opt_none()
    return Adt(o.ty, o.variant, [Ptr(p.cell, p.path + (0,))])


def m_and_then(it, a, ty, callee):
    o = a[0]
    if o.variant != _good(o):
        return o
    return it.call_value(a[1], [o.fields[0]], ty)


def m_map_or(it, a, ty, callee):
    o = a[0]
    if o.variant != _good(o):
        return a[1]
    return it.call_value(a[2], [o.fields[0]], ty)


def m_is_some_and(it, a, ty, callee):
    o = a[0]
    if o.variant != 1:
        return False
    return it.call_value(a[1], [o.fields[0]], ty)


def m_opt_cloned(it, a, ty, callee):
    o = a[0]
    return opt_some(deref(it, o.fields[0])) if o.variant == 1 else o


def m_res_ok(it, a, ty, callee):
    o = a[0]
    return opt_some(o.fields[0]) if o.variant == 0 else opt_none()


def m_res_err(it, a, ty, callee):
    o = a[0]
    return opt_some(o.fields[0]) if o.variant == 1 else opt_none()


def m_opt_then(it, a, ty, callee):
    if it.branch(a[0]):
        return opt_some(it.call_value(a[1], [], ty))
    return opt_none()


def m_into(it, a, ty, callee):
    m = re.match(r'^<(.*) as std::convert::Into<(.*)>>::into$', callee, re.S)
    src, dst = m.group(1).strip(), m.group(2).strip()
    if src == dst:
        return a[0]
    from ..values import INT_TYPES
    if dst in INT_TYPES and isinstance(a[0], Int):
        w, sg = INT_TYPES[dst]
        x = a[0]
        if x.conc:
            return Int(x.sval(), w, sg)
        z = x.z()
        if w < x.w:
            z = z3.Extract(w - 1, 0, z)
        elif w > x.w:
            z = z3.SignExt(w - x.w, z) if x.s else z3.ZeroExt(w - x.w, z)
        return Int(z, w, sg)
    if src.startswith('impl ') or re.fullmatch(r'[A-Z]\w*', src):
        # generic parameter / impl Trait: use the run-time type of the argument
        rt = it.runtime_type(a[0])
        if rt is None and isinstance(a[0], Seq) and a[0].kind == 'vec' and dst.startswith('std::vec::Vec<'):
            return a[0]                     # a Vec handed to `T: Into<Vec<_>>`
        if rt is None:
            from ..adts import base_ty as _b
            raise Inconclusive('Into on unknown run-time type for ' + callee[:80])
        from ..adts import base_ty as _b
        if _b(rt) == _b(dst):
            return a[0]
        src = rt
    return it.call('<%s as std::convert::From<%s>>::from' % (dst, src), a, dst)


def m_borrow_bytes(it, a, ty, callee):
    """<T as Borrow<[u8]>>::borrow(&T) for a type parameter T: dispatch on the run-time value"""
    p = a[0]
    v = it.load(p) if isinstance(p, Ptr) else p
    if isinstance(v, Ptr):              # T = &[u8] / &Vec<u8> ...
        inner = it.load(v)
        if isinstance(inner, Seq) and v.win is None:
            return Ptr(v.cell, v.path, (0, len(inner.fields)))
        return v
    if isinstance(v, Seq):
        return Ptr(p.cell, p.path, (0, len(v.fields)))
    rt = it.runtime_type(v)
    if rt is None:
        raise Inconclusive('Borrow<[u8]> on %r' % (v,))
    return it.call('<%s as std::borrow::Borrow<[u8]>>::borrow' % rt, a, ty)


def m_try_into(it, a, ty, callee):
    m = re.match(r'^<(.*) as std::convert::TryInto<(.*)>>::try_into$', callee, re.S)
    return it.call('<%s as std::convert::TryFrom<%s>>::try_from' % (m.group(2).strip(), m.group(1).strip()), a, ty)


def m_asref_bytes(it, a, ty, callee):
    """<T as AsRef<[u8]>>::as_ref(&T) for a type parameter / associated type: dispatch on the run-time value"""
    p = a[0]
    v = it.load(p) if isinstance(p, Ptr) else p
    if isinstance(v, Ptr):              # T = &str / &[u8]
        inner = it.load(v)
        if isinstance(inner, Seq) and v.win is None:
            return Ptr(v.cell, v.path, (0, len(inner.fields)))
        if isinstance(inner, Seq):
            return v
        p, v = v, inner
    if isinstance(v, Seq):
        return Ptr(p.cell, p.path, (0, len(v.fields))) if p.win is None else p
    rt = it.runtime_type(v)
    if rt is None:
        raise Inconclusive('AsRef<[u8]> on %r' % (v,))
    return it.call('<%s as std::convert::AsRef<[u8]>>::as_ref' % rt, [p], ty)


def m_inspect_err(it, a, ty, callee):
    return a[0]


def m_box_new_uninit(it, a, ty, callee):
    m = re.search(r'Box::<\[(.*); (\d+)\]>::new_uninit', callee, re.S)
    n = int(m.group(2))
    arr = Seq([None] * n, 'array')
    cell = Cell('box', Adt('MaybeUninit', 0, [UNIT, Adt('ManuallyDrop', 0, [Adt('MaybeDangling', 0, [arr])])]))
    return Adt('Box', 0, [Adt('Unique', 0, [Ptr(cell)]), UNIT])


def m_box_into_vec(it, a, ty, callee):
    b = a[0]
    cell = b.fields[0].fields[0].cell
    arr = cell.val.fields[1].fields[0].fields[0]
    return Seq(arr.fields, 'vec')


def mk_box(v):
    return Adt('Box', 0, [Adt('Unique', 0, [Ptr(Cell('box', v))]), UNIT])


def box_ptr(b):
    """Box value -> pointer to its heap cell"""
    if isinstance(b, Adt) and b.ty == 'Box':
        return b.fields[0].fields[0]
    return b


def m_box_new(it, a, ty, callee):
    return mk_box(a[0])


def m_nonzero_new(it, a, ty, callee):
    x = a[0]
    if it.branch(it.veq(x, Int(0, x.w, x.s))):
        return opt_none()
    return opt_some(Adt('std::num::NonZero', 0, [x]))


def m_int_from_int(it, a, ty, callee):
    from ..values import INT_TYPES
    m = re.match(r'^<(\w+) as std::convert::(?:Try)?From<(\w+)>>::(?:try_)?from$', callee)
    w, sg = INT_TYPES[m.group(1)]
    x = a[0]
    if isinstance(x, bool):
        return Int(1 if x else 0, w, sg)
    if callee.endswith('try_from'):
        fits = it.binop('Le', Int(x.v, max(x.w, w), False) if x.conc else Int(z3.ZeroExt(max(x.w, w) - x.w, x.z()), max(x.w, w), False), Int((1 << (w - (1 if sg else 0))) - 1, max(x.w, w), False))
        if not it.branch(fits):
            return res_err(UNIT)
    if x.conc:
        r = Int(x.sval(), w, sg)
    else:
        z = x.z()
        if w < x.w:
            z = z3.Extract(w - 1, 0, z)
        elif w > x.w:
            z = z3.SignExt(w - x.w, z) if x.s else z3.ZeroExt(w - x.w, z)
        r = Int(z, w, sg)
    return res_ok(r) if callee.endswith('try_from') else r


def install(it):
    A = it.add_model
    A(r'<(?:u|i)(?:8|16|32|64|128|size) as std::convert::(?:Try)?From<(?:u|i)(?:8|16|32|64|128|size)>>::(?:try_)?from', m_int_from_int)
    A(r'std::num::NonZero::<.*>::new', m_nonzero_new)
    A(r'std::num::NonZero::<.*>::get', lambda it, a, ty, c: a[0].fields[0])
    A(r'std::boxed::Box::<\[.*; \d+\]>::new_uninit', m_box_new_uninit)
    A(r'std::boxed::box_assume_init_into_vec_unsafe::<.*>', m_box_into_vec)
    A(r'std::boxed::Box::<.*>::new', m_box_new)
    # logging is off: both tracing's own level test and the `log` fallback
    A(r'<tracing::Level as std::cmp::PartialOrd<tracing::level_filters::LevelFilter>>::le', m_false)
    A(r'<tracing::log::Level as std::cmp::PartialOrd<tracing::log::LevelFilter>>::le', m_false)
    # Clone / PartialEq of library types: values are immutable, so clone is the identity
    A(r'<(?!.*(?:litep2p::|^<(?:transport|protocol|crypto|types|peer_id|codec|error|substream|multistream_select|addresses|config|yamux|bandwidth|executor|utils)::)).* as std::clone::Clone>::clone', m_clone)
    A(r'<std::(?:option::Option|result::Result|vec::Vec|collections::\w+|sync::Arc|boxed::Box)<.*> as std::clone::Clone>::clone', m_clone)
    A(r'<(?:multiaddr::Multiaddr|multihash::Multihash<64>|bytes::Bytes|std::time::Instant|std::time::Duration|multiaddr::PeerId|std::net::\w+) as std::cmp::PartialEq>::(eq)', m_eq)
    A(r'<(?:multiaddr::Multiaddr|multihash::Multihash<64>|bytes::Bytes|std::time::Instant|std::time::Duration|multiaddr::PeerId|std::net::\w+) as std::cmp::PartialEq>::(ne)', m_ne)
    A(r'<(?:std::option::Option|std::result::Result|std::vec::Vec|std::collections::VecDeque|\[|\(|&).* as std::cmp::PartialEq(<.*>)?>::(eq|ne)', m_generic_eq)
    # Option / Result
    A(r'std::option::Option::<.*>::is_some', m_is_variant(1))
    A(r'std::option::Option::<.*>::is_none', m_is_variant(0))
    A(r'std::result::Result::<.*>::is_ok', m_is_variant(0))
    A(r'std::result::Result::<.*>::is_err', m_is_variant(1))
    A(r'std::(?:option::Option|result::Result)::<.*>::(?:unwrap|expect)', m_unwrap)
    A(r'std::(?:option::Option|result::Result)::<.*>::unwrap_or', m_unwrap_or)
    A(r'std::option::Option::<.*>::ok_or(::<.*>)?', m_ok_or)
    A(r'std::option::Option::<.*>::ok_or_else::<.*>', lambda it, a, ty, c: res_ok(a[0].fields[0]) if a[0].variant == 1 else res_err(it.call_value(a[1], [], None)))
    A(r'std::(?:option::Option|result::Result)::<.*>::unwrap_or_else::<.*>', m_unwrap_or_else)
    A(r'std::(?:option::Option|result::Result)::<.*>::unwrap_or_default', m_unwrap_or_default)
    A(r'std::(?:option::Option|result::Result)::<.*>::(as_ref|as_mut)', m_as_ref)
    A(r'std::(?:option::Option|result::Result)::<.*>::and_then::<.*>', m_and_then)
    A(r'std::(?:option::Option|result::Result)::<.*>::map_or::<.*>', m_map_or)
    A(r'std::option::Option::<.*>::is_some_and::<.*>', m_is_some_and)
    A(r'std::option::Option::<&.*>::(cloned|copied)', m_opt_cloned)
    A(r'std::result::Result::<.*>::ok', m_res_ok)
    A(r'std::result::Result::<.*>::err', m_res_err)
    A(r'std::result::Result::<.*>::inspect_err::<.*>', m_inspect_err)
    A(r'core::bool::<impl bool>::then::<.*>', m_opt_then)
    A(r'<[A-Z]\w* as std::borrow::Borrow<\[u8\]>>::borrow', m_borrow_bytes)
    A(r'<(?:[A-Z]\w*|<.*>::Item) as std::convert::AsRef<\[u8\]>>::as_ref', m_asref_bytes)
    A(r'<.* as std::convert::TryInto<.*>>::try_into', m_try_into)
    A(r'<.* as std::convert::Into<.*>>::into', m_into)
    A(r'std::option::Option::<.*>::take', m_opt_take)
    A(r'std::(?:option::Option|result::Result)::<.*>::map::<.*>', m_opt_map)
    A(r'std::(?:result::Result|task::Poll)::<.*>::map_err::<.*>', m_map_err)
    A(r'core::bool::<impl bool>::then_some::<.*>', m_then_some)
    A(r'<.* as std::ops::Try>::branch', m_try_branch)
    A(r'<.* as std::ops::FromResidual<.*>>::from_residual', m_from_residual)
    A(r'<(.*) as std::convert::From<\1>>::from', m_from_identity)
    A(r'<(.*) as std::convert::Into<\1>>::into', m_from_identity)
    A(r'std::mem::replace::<.*>', m_mem_replace)
    A(r'std::mem::drop::<.*>', m_unit)
    A(r'core::num::<impl [ui]\w+>::saturating_add', m_saturating('add'))
    A(r'core::num::<impl [ui]\w+>::saturating_sub', m_saturating('sub'))
    A(r'core::num::<impl [ui]\w+>::saturating_mul', m_saturating('mul'))
    A(r'core::num::<impl u\w+>::checked_sub', m_checked_sub)
    A(r'core::num::<impl [ui]\w+>::wrapping_add', lambda it, a, ty, c: it.binop('Add', a[0], a[1]))
    A(r'core::num::<impl [ui]\w+>::wrapping_sub', lambda it, a, ty, c: it.binop('Sub', a[0], a[1]))
    A(r'core::num::<impl [ui]\w+>::wrapping_shl', lambda it, a, ty, c: it.binop('Shl', a[0], a[1]))
    A(r'core::num::<impl [ui]\w+>::wrapping_shr', lambda it, a, ty, c: it.binop('Shr', a[0], a[1]))
    A(r'<&*(?:u|i)(?:8|16|32|64|128|size) as std::cmp::PartialOrd(<.*>)?>::(lt|le|gt|ge)', m_ref_int_cmp)
    A(r'std::option::Option::<.*>::get_or_insert_with::<.*>', m_get_or_insert_with)
    A(r'std::mem::take::<.*>', m_mem_take)
    A(r'<\(.*\) as std::cmp::Ord>::cmp', m_tuple_cmp)
    A(r'<(?:u|i)(?:8|16|32|64|128|size) as std::cmp::Ord>::cmp', lambda it, a, ty, c: it.binop('Cmp', deref(it, a[0]), deref(it, a[1])))
    A(r'<(?:u|i)(?:8|16|32|64|128|size) as std::cmp::Ord>::min', m_min_max('min'))
    A(r'<(?:u|i)(?:8|16|32|64|128|size) as std::cmp::Ord>::max', m_min_max('max'))
    A(r'std::cmp::min::<.*>', m_min_max('min'))
    A(r'std::cmp::max::<.*>', m_min_max('max'))
    # smart pointers and locks (single-threaded execution)
    A(r'<std::sync::Arc<.*> as std::ops::Deref>::deref', m_deref_ptr)
    A(r'<std::boxed::Box<.*> as std::ops::Deref(Mut)?>::deref(_mut)?', m_deref_ptr)
    A(r'parking_lot::lock_api::RwLock::<.*>::(read|write)', m_identity)
    A(r'parking_lot::lock_api::Mutex::<.*>::lock', m_identity)
    A(r'<parking_lot::lock_api::(RwLockWriteGuard|RwLockReadGuard|MutexGuard)<.*> as std::ops::Deref(Mut)?>::deref(_mut)?', m_deref_ptr)
    A(r'<std::pin::Pin<&mut .*> as std::ops::Deref(Mut)?>::deref(_mut)?', lambda it, a, ty, c: deref(it, a[0]).fields[0] if isinstance(deref(it, a[0]), Adt) else deref(it, a[0]))
    A(r'std::pin::Pin::<&mut .*>::(new|into_inner|get_mut|as_mut)', m_identity)
    # collections
    A(r'std::collections::(HashMap|BTreeMap)::<.*>::(new|with_capacity)', m_new_map)
    A(r'<std::collections::(HashMap|BTreeMap)<.*> as std::default::Default>::default', m_new_map)
    A(r'std::collections::(HashSet|BTreeSet)::<.*>::(new|with_capacity)', m_new_set)
    A(r'<std::collections::(HashSet|BTreeSet)<.*> as std::default::Default>::default', m_new_set)
    A(r'std::vec::Vec::<.*>::(new|with_capacity)', m_new_seq)
    A(r'std::collections::VecDeque::<.*>::(new|with_capacity)', m_new_seq)
    A(r'std::collections::(HashMap|HashSet|BTreeMap|BTreeSet|VecDeque)::<.*>::len', m_len)
    A(r'std::vec::Vec::<.*>::(reserve|reserve_exact|shrink_to_fit)', m_unit)
    A(r'std::vec::Vec::<.*>::len', m_len)
    A(r'indexmap::IndexMap::<.*>::len', m_len)
    A(r'indexmap::IndexMap::<.*>::is_empty', m_is_empty)
    A(r'indexmap::IndexMap::<.*>::get_index_mut', m_indexmap_get_index_mut)
    A(r'std::collections::(HashMap|HashSet|BTreeMap|BTreeSet|VecDeque)::<.*>::is_empty', m_is_empty)
    A(r'std::vec::Vec::<.*>::is_empty', m_is_empty)
    A(r'std::collections::(HashSet|BTreeSet)::<.*>::insert', m_set_insert)
    A(r'std::collections::(HashSet|BTreeSet)::<.*>::remove::<.*>', m_set_remove)
    A(r'std::collections::(HashSet|BTreeSet)::<.*>::contains::<.*>', m_set_contains)
    A(r'std::collections::(HashSet|BTreeSet)::<.*>::iter', m_set_iter)
    A(r'std::collections::(HashSet|BTreeSet)::<.*>::clear', lambda it, a, ty, c: (it.store(a[0], SetModel()), UNIT)[1])
    A(r'std::collections::(HashMap|BTreeMap)::<.*>::clear', lambda it, a, ty, c: (it.store(a[0], MapModel(kind=it.load(a[0]).kind)), UNIT)[1])
    A(r'<&?std::collections::(HashSet|BTreeSet)<.*> as std::cmp::PartialEq>::eq', m_eq)
    A(r'<&?std::collections::(HashSet|BTreeSet)<.*> as std::cmp::PartialEq>::ne', m_ne)
    A(r'<std::collections::(HashSet|BTreeSet)<.*> as std::iter::Extend<.*>>::extend::<.*>', m_set_extend)
    A(r'<std::collections::(HashSet|BTreeSet)<.*> as std::iter::FromIterator<.*>>::from_iter::<.*>', m_set_from_iter)
    A(r'(?:std::collections::HashMap|indexmap::IndexMap)::<.*>::insert', m_map_insert)
    A(r'std::collections::HashMap::<.*>::remove::<.*>', m_map_remove)
    A(r'(?:std::collections::HashMap|indexmap::IndexMap)::<.*>::get::<.*>', m_map_get(False))
    A(r'(?:std::collections::HashMap|indexmap::IndexMap)::<.*>::get_mut::<.*>', m_map_get(True))
    A(r'std::collections::HashMap::<.*>::contains_key::<.*>', m_map_contains_key)
    A(r'std::collections::HashMap::<.*>::entry', m_map_entry)
    A(r'std::collections::HashMap::<.*>::retain::<.*>', m_map_retain)
    A(r"std::collections::hash_map::Entry::<.*>::or_default", m_entry_or_default)
    A(r"std::collections::hash_map::OccupiedEntry::<.*>::(get|get_mut|into_mut)", m_occupied_get)
    A(r"std::collections::hash_map::OccupiedEntry::<.*>::insert", m_occupied_insert)
    A(r"std::collections::hash_map::OccupiedEntry::<.*>::remove", m_occupied_remove)
    A(r"std::collections::hash_map::VacantEntry::<.*>::insert", m_vacant_insert)
    A(r'std::collections::HashMap::<.*>::values', m_iter_values)
    A(r'<.* as std::iter::IntoIterator>::into_iter', m_into_iter_identity)
    A(r'<std::collections::(hash_set|hash_map|btree_map|vec_deque)::\w+<.*> as std::iter::Iterator>::next', m_iter_next)
    A(r'<std::(vec|slice)::\w+<.*> as std::iter::Iterator>::next', m_iter_next)
    A(r'<std::collections::(hash_set|hash_map)::\w+<.*> as std::iter::Iterator>::for_each::<.*>', m_iter_for_each)
