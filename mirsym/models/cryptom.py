"""Symbolic ("perfect cryptography") model of litep2p's ed25519 wrappers and the key protobuf.

ed25519 (dalek, assembly/curve arithmetic) is outside any SMT encoding; its *contract* is modelled:
  * `Keypair::generate()` yields a fresh key, distinct from every other key of the path;
  * `sign(msg)` yields an unforgeable token bound to (key, msg);
  * `verify(pk, msg, sig)` holds iff sig is such a token for the same key and a byte-wise equal message;
  * any 32-byte string parses as a public key (an over-approximation: the real curve check may refuse some).
The key protobuf (2 fields: type varint, data bytes) is encoded/decoded exactly for concrete bytes."""
from ..interp import Inconclusive, b_and
from ..values import Int, UNIT, Adt, Seq, Cell, Ptr, Model, res_ok, res_err, usize
from .core import deref
from .bytesm import as_bytes

KP = 'crypto::ed25519::Keypair'
PK = 'crypto::ed25519::PublicKey'


class KeyM(Model):
    __slots__ = ('n',)

    def __init__(self, n):
        self.n = n

    def __repr__(self):
        return 'Key#%d' % self.n


class SigM(Model):
    """signature token; stands for the Vec<u8> the real code passes around unopened"""
    __slots__ = ('n', 'msg')
    rust_type = 'std::vec::Vec<u8>'
    fields = ()

    def __init__(self, n, msg):
        self.n = n
        self.msg = tuple(msg)

    def __repr__(self):
        return 'Sig(key#%d, %d bytes)' % (self.n, len(self.msg))


def key_bytes(n):
    return [Int(n, 8)] + [Int(0xA5, 8)] * 31


def m_generate(it, a, ty, callee):
    n = it.path_state.get('keys', 0) + 1
    it.path_state['keys'] = n
    return Adt(KP, 0, [KeyM(n)])


def m_public(it, a, ty, callee):
    kp = deref(it, a[0])
    return Adt(PK, 0, [Seq(key_bytes(kp.fields[0].n), 'array')])


def m_sign(it, a, ty, callee):
    kp = deref(it, a[0])
    return SigM(kp.fields[0].n, as_bytes(it, a[1]))


def m_pk_to_bytes(it, a, ty, callee):
    return deref(it, a[0]).fields[0]


def m_pk_as_bytes(it, a, ty, callee):
    p = a[0]
    return Ptr(p.cell, p.path + (0,), (0, 32))


def m_pk_try_from_bytes(it, a, ty, callee):
    bs = as_bytes(it, a[0])
    if len(bs) != 32:
        return res_err(Adt('error::ParseError', it.adts.variant_index('error::ParseError', 'InvalidPublicKey'), ()))
    return res_ok(Adt(PK, 0, [Seq(bs, 'array')]))


def m_pk_verify(it, a, ty, callee):
    pk = deref(it, a[0])
    msg = as_bytes(it, a[1])
    sig = a[2]
    while isinstance(sig, Ptr):
        sig = it.load(sig)
    if not isinstance(sig, SigM):
        return False            # no token: nobody can forge a signature
    if len(sig.msg) != len(msg):
        return False
    return b_and(*([it.veq(x, y) for x, y in zip(pk.fields[0].fields, key_bytes(sig.n))] + [it.veq(x, y) for x, y in zip(sig.msg, msg)]))


def m_keyproto_decode(it, a, ty, callee):
    """prost decode of keys_proto::PublicKey { type: enum(1), data: bytes(2) } on concrete bytes"""
    bs = as_bytes(it, a[0])
    if not all(b.conc for b in bs):
        raise Inconclusive('protobuf decode of symbolic bytes')
    raw = bytes(b.v for b in bs)
    ty_val, data, i = 0, b'', 0
    def varint(i):
        v, s = 0, 0
        while True:
            if i >= len(raw) or s > 63:
                raise ValueError
            b = raw[i]; i += 1
            v |= (b & 0x7f) << s; s += 7
            if b < 0x80:
                return v, i
    try:
        while i < len(raw):
            tag, i = varint(i)
            field, wt = tag >> 3, tag & 7
            if wt == 0:
                v, i = varint(i)
                if field == 1:
                    ty_val = v
            elif wt == 2:
                n, i = varint(i)
                if i + n > len(raw):
                    raise ValueError
                if field == 2:
                    data = raw[i:i + n]
                i += n
            else:
                raise ValueError
    except ValueError:
        return res_err(Adt('prost::DecodeError', 0, ()))
    return res_ok(Adt('crypto::keys_proto::PublicKey', 0, [Int(ty_val, 32, True), Seq([Int(b, 8) for b in data], 'vec')]))


def _keyproto_bytes(it, v):
    ty_val, data = v.fields
    if not ty_val.conc:
        raise Inconclusive('protobuf encode of a symbolic key type')
    out = []
    if ty_val.v != 0:
        out += [Int(0x08, 8), Int(ty_val.v, 8)]
    d = as_bytes(it, data)
    if d:
        out += [Int(0x12, 8), Int(len(d), 8)] + list(d)
    return out


def m_keyproto_encoded_len(it, a, ty, callee):
    return usize(len(_keyproto_bytes(it, deref(it, a[0]))))


def m_keyproto_encode(it, a, ty, callee):
    bs = _keyproto_bytes(it, deref(it, a[0]))
    buf = a[1]
    while isinstance(it.load(buf), Ptr):
        buf = it.load(buf)
    v = it.load(buf)
    it.store(buf, Seq(tuple(v.fields) + tuple(bs), v.kind))
    return res_ok(UNIT)


# ---- Noise transport cipher (snow::TransportState behind NoiseContext) -------------------------------------------
SNOW_MAXMSGLEN = 65535          # snow::constants::MAXMSGLEN
TAGLEN = 16


class CipherM(Model):
    """transport-mode cipher state of one end: ciphertext = plaintext || 16-byte tag naming direction and nonce.
    Contract modelled: length limits of snow, tag/nonce check on decryption (a frame that is truncated, replayed,
    dropped or reordered fails), payload bytes pass through unchanged. AEAD integrity of the payload bytes
    themselves is the cipher's guarantee and is not modelled."""
    __slots__ = ('role', 'send', 'recv')
    fields = ()

    def __init__(self, role, send=0, recv=0):
        self.role = role
        self.send = send
        self.recv = recv

    def __repr__(self):
        return 'Cipher(%s, send %d, recv %d)' % (self.role, self.send, self.recv)


def _tag(direction, nonce):
    return [Int(direction, 8), Int(nonce & 0xff, 8), Int((nonce >> 8) & 0xff, 8)] + [Int(0x5A, 8)] * (TAGLEN - 3)


def m_cipher_pair(it, a, ty, callee):
    C = 'crypto::noise::verif_hooks::Cipher'
    from ..values import Tup
    return Tup([Adt(C, 0, [CipherM(1)]), Adt(C, 0, [CipherM(2)])])


def _snow_err():
    return res_err(Adt('snow::Error', 0, ()))


def m_noise_write(it, a, ty, callee):
    sp, msg, out = a
    c = it.load(sp)
    if not isinstance(c, CipherM):
        raise Inconclusive('NoiseContext::write_message on an unmodelled state %r' % (c,))
    data = as_bytes(it, msg)
    n = len(data)
    room = out.win[1] if out.win is not None else len(it.load(out).fields)
    if n + TAGLEN > SNOW_MAXMSGLEN or n + TAGLEN > room:
        return _snow_err()
    base = out.win[0] if out.win is not None else 0
    it.store(Ptr(out.cell, out.path, (base, n + TAGLEN)), Seq(tuple(data) + tuple(_tag(c.role, c.send)), 'slice'))
    it.store(sp, CipherM(c.role, c.send + 1, c.recv))
    return res_ok(usize(n + TAGLEN))


def m_noise_read(it, a, ty, callee):
    sp, msg, out = a
    c = it.load(sp)
    if not isinstance(c, CipherM):
        raise Inconclusive('NoiseContext::read_message on an unmodelled state %r' % (c,))
    data = as_bytes(it, msg)
    n = len(data)
    room = out.win[1] if out.win is not None else len(it.load(out).fields)
    if n < TAGLEN or n > SNOW_MAXMSGLEN or n - TAGLEN > room:
        return _snow_err()
    peer = 3 - c.role
    ok = b_and(*[it.veq(x, y) for x, y in zip(data[n - TAGLEN:], _tag(peer, c.recv))])
    if not it.branch(ok):
        return _snow_err()
    base = out.win[0] if out.win is not None else 0
    if n > TAGLEN:
        it.store(Ptr(out.cell, out.path, (base, n - TAGLEN)), Seq(tuple(data[:n - TAGLEN]), 'slice'))
    it.store(sp, CipherM(c.role, c.send, c.recv + 1))
    return res_ok(usize(n - TAGLEN))


def install(it):
    A = it.add_model
    A(r'crypto::noise::verif_hooks::cipher_pair', m_cipher_pair)
    A(r'crypto::noise::NoiseContext::write_message', m_noise_write)
    A(r'crypto::noise::NoiseContext::read_message', m_noise_read)
    A(r'crypto::ed25519::Keypair::generate', m_generate)
    A(r'crypto::ed25519::Keypair::public', m_public)
    A(r'crypto::ed25519::Keypair::sign', m_sign)
    A(r'crypto::ed25519::PublicKey::to_bytes', m_pk_to_bytes)
    A(r'crypto::ed25519::PublicKey::as_bytes', m_pk_as_bytes)
    A(r'crypto::ed25519::PublicKey::try_from_bytes', m_pk_try_from_bytes)
    A(r'crypto::ed25519::PublicKey::verify', m_pk_verify)
    A(r'<crypto::ed25519::(Keypair|PublicKey) as std::clone::Clone>::clone', lambda it, a, ty, c: deref(it, a[0]))
    A(r'<crypto::keys_proto::PublicKey as prost::Message>::decode::<.*>', m_keyproto_decode)
    A(r'<crypto::keys_proto::PublicKey as prost::Message>::encoded_len', m_keyproto_encoded_len)
    A(r'<crypto::keys_proto::PublicKey as prost::Message>::encode::<.*>', m_keyproto_encode)
    A(r'<error::ParseError as std::convert::From<prost::DecodeError>>::from', lambda it, a, ty, c: Adt('error::ParseError', it.adts.variant_index('error::ParseError', 'ProstDecodeError'), [a[0]]))
