"""Environment models: defaults, atomics, Arc/RwLock constructors, channels, crypto stubs."""
import re
import z3

from ..interp import Inconclusive, Violation, b_not, b_and, b_or
from ..values import Int, UNIT, Adt, Tup, Seq, Cell, Ptr, Extern, Model, usize, opt_none, opt_some, res_ok, res_err, INT_TYPES
from .core import Atom, MapModel, SetModel, deref


def m_default(it, a, ty, callee):
    m = re.match(r'^<(.*) as std::default::Default>::default$', callee, re.S)
    t = m.group(1).strip()
    if t in INT_TYPES:
        w, s = INT_TYPES[t]
        return Int(0, w, s)
    if t == 'bool':
        return False
    if t.startswith('std::option::Option<'):
        return opt_none()
    if t.startswith(('std::vec::Vec<', 'std::collections::VecDeque<', 'std::string::String')):
        return Seq((), 'vec')
    if t.startswith(('std::collections::HashMap<', 'std::collections::BTreeMap<', 'indexmap::IndexMap<')):
        return MapModel()
    if t.startswith(('std::collections::HashSet<', 'std::collections::BTreeSet<')):
        return SetModel()
    if t.startswith('std::sync::atomic::Atomic'):
        return Int(0, 64, False)
    if t.startswith('std::sync::Arc<'):
        inner = t[len('std::sync::Arc<'):-1]
        return Ptr(Cell('arc', it.call('<%s as std::default::Default>::default' % inner, [], inner)))
    if t.startswith('parking_lot::lock_api::RwLock<') or t.startswith('parking_lot::lock_api::Mutex<'):
        from .. import mir
        inner = mir.split_top(t[t.index('<') + 1:-1])[-1]
        return it.call('<%s as std::default::Default>::default' % inner, [], inner)
    raise Inconclusive('Default for ' + t)


class Channel(Model):
    """bounded FIFO shared by Sender/Receiver handles (the handles are Ptr to one cell)"""
    __slots__ = ('fields', 'cap', 'closed')

    def __init__(self, items=(), cap=None, closed=False):
        self.fields = tuple(items)
        self.cap = cap
        self.closed = closed


class RxHandle(Model):
    """tokio mpsc Receiver: dropping it closes the channel (senders are plain pointers; their drop is not modelled)"""
    __slots__ = ('chan',)
    fields = ()

    def __init__(self, chan):
        self.chan = chan

    def on_drop(self, it):
        ch = it.load(self.chan)
        it.store(self.chan, Channel(ch.fields, ch.cap, True))


def m_channel(it, a, ty, callee):
    cap = a[0].v if a and isinstance(a[0], Int) and a[0].conc else None
    cell = Cell('chan', Channel((), cap))
    return Tup([Ptr(cell), RxHandle(Ptr(cell))])


def _chan(it, p):
    while True:
        if isinstance(p, RxHandle):
            p = p.chan
        elif isinstance(p, Ptr) and not isinstance(it.load(p), Channel):
            p = it.load(p)
        else:
            return p


def m_try_send(it, a, ty, callee):
    """Sender::try_send: Ok(()) | Err(TrySendError::Full(v)) | Err(TrySendError::Closed(v))"""
    p = _chan(it, a[0])
    ch = it.load(p)
    TSE = 'tokio::sync::mpsc::error::TrySendError'
    if ch.closed:
        return res_err(Adt(TSE, 1, [a[1]]))
    if ch.cap is not None and len(ch.fields) >= ch.cap:
        return res_err(Adt(TSE, 0, [a[1]]))
    it.store(p, Channel(ch.fields + (a[1],), ch.cap, ch.closed))
    return res_ok(UNIT)


class SendFut(Model):
    """the future returned by `Sender::send`: resolves on first poll (the harness channels never stay full)"""
    __slots__ = ('chan', 'value')

    def __init__(self, chan, value):
        self.chan = chan
        self.value = value


def m_send(it, a, ty, callee):
    return SendFut(_chan(it, a[0]), a[1])


def m_send_poll(it, a, ty, callee):
    fut = a[0]
    if isinstance(fut, Adt) and fut.ty == 'std::pin::Pin':
        fut = fut.fields[0]
    f = it.load(fut) if isinstance(fut, Ptr) else fut
    if not isinstance(f, SendFut):
        raise Inconclusive('poll of an unmodelled tokio future: %r' % (f,))
    ch = it.load(f.chan)
    POLL = 'std::task::Poll'
    if ch.closed:
        return Adt(POLL, 0, [res_err(Adt('tokio::sync::mpsc::error::SendError', 0, [f.value]))])
    if ch.cap is not None and len(ch.fields) >= ch.cap:
        return Adt(POLL, 1, ())
    it.store(f.chan, Channel(ch.fields + (f.value,), ch.cap, ch.closed))
    return Adt(POLL, 0, [res_ok(UNIT)])


class RecvFut(Model):
    """the future returned by `Receiver::recv`"""
    __slots__ = ('rx',)

    def __init__(self, rx):
        self.rx = rx


def m_recv(it, a, ty, callee):
    return RecvFut(_chan(it, a[0]))


def m_recv_poll(it, a, ty, callee):
    """Ready(Some(v)) when a message is queued, otherwise Pending (the harness managers keep a sender of their own
    channels alive, so `None` - every sender dropped - does not occur)"""
    fut = a[0]
    if isinstance(fut, Adt) and fut.ty == 'std::pin::Pin':
        fut = fut.fields[0]
    f = it.load(fut) if isinstance(fut, Ptr) else fut
    if not isinstance(f, RecvFut):
        raise Inconclusive('poll of an unmodelled tokio future: %r' % (f,))
    ch = it.load(f.rx)
    POLL = 'std::task::Poll'
    if not ch.fields:
        return Adt(POLL, 1, ())
    it.store(f.rx, Channel(ch.fields[1:], ch.cap, ch.closed))
    from .core import opt_some
    return Adt(POLL, 0, [opt_some(ch.fields[0])])


def m_poll_recv(it, a, ty, callee):
    """Receiver::poll_recv: Ready(Some(v)) when a message is queued, otherwise Pending (sender drops are not modelled, so the
    `None` of a channel whose senders are all gone does not occur)"""
    p = _chan(it, a[0])
    ch = it.load(p)
    POLL = 'std::task::Poll'
    if not ch.fields:
        return Adt(POLL, 1, ())
    it.store(p, Channel(ch.fields[1:], ch.cap, ch.closed))
    return Adt(POLL, 0, [opt_some(ch.fields[0])])


def m_try_recv(it, a, ty, callee):
    p = _chan(it, a[0])
    ch = it.load(p)
    TRE = 'tokio::sync::mpsc::error::TryRecvError'
    if not ch.fields:
        return res_err(Adt(TRE, 1 if ch.closed else 0, ()))
    it.store(p, Channel(ch.fields[1:], ch.cap, ch.closed))
    return res_ok(ch.fields[0])


def m_sender_clone(it, a, ty, callee):
    return it.load(a[0]) if isinstance(it.load(a[0]), Ptr) else a[0]


def m_weak_upgrade(it, a, ty, callee):
    p = _chan(it, a[0])
    ch = it.load(p)
    return opt_none() if ch.closed else opt_some(p)


def m_arc_new(it, a, ty, callee):
    return Ptr(Cell('arc', a[0]))


def m_identity0(it, a, ty, callee):
    return a[0]


def m_atomic_new(it, a, ty, callee):
    return a[0]


def m_fetch_add(it, a, ty, callee):
    p = a[0]
    old = it.load(p)
    it.store(p, it.binop('Add', old, a[1]))
    return old


def m_atomic_load(it, a, ty, callee):
    return it.load(a[0])


def m_empty_seq(it, a, ty, callee):
    return Seq((), 'vec')


class IoErr(Model):
    """std::io::Error: only its ErrorKind is modelled"""
    __slots__ = ('kind',)
    rust_type = 'std::io::Error'

    def __init__(self, kind):
        self.kind = kind

    def __repr__(self):
        return 'io::Error(%s)' % self.kind


def _kind_text(v):
    t = getattr(v, 'what', None) or repr(v)
    return t.rsplit('::', 1)[-1]


def m_ioerr_new(it, a, ty, callee):
    return IoErr(_kind_text(a[0]))


def m_ioerr_kind(it, a, ty, callee):
    e = deref(it, a[0])
    if isinstance(e, IoErr):
        return Extern('std::io::ErrorKind::' + e.kind)
    return Extern('std::io::ErrorKind::Other')


def m_kind_eq(it, a, ty, callee):
    r = _kind_text(deref(it, a[0])) == _kind_text(deref(it, a[1]))
    return (not r) if callee.endswith('::ne') else r


def m_panic(it, a, ty, callee):
    from ..interp import Violation
    msg = ''
    for x in a:
        if isinstance(x, Extern) and x.what.startswith('fmt:'):
            msg = x.what[4:]
        elif isinstance(x, Ptr):
            try:
                v = it.load(x)
                if isinstance(v, Seq) and all(getattr(b, 'conc', False) for b in v.fields):
                    msg = bytes(b.v for b in v.fields).decode(errors='replace')
            except Exception:
                pass
    raise Violation('panic', 'explicit panic: %s (%s)' % (msg[:80], callee.split('::')[-1]), it.current_model())


def m_fmt_args(it, a, ty, callee):
    txt = ''
    if a and isinstance(a[0], Ptr):
        try:
            v = it.load(a[0])
            if isinstance(v, Seq) and all(getattr(b, 'conc', False) for b in v.fields):
                txt = bytes(b.v for b in v.fields).decode(errors='replace')
        except Exception:
            pass
    return Extern('fmt:' + txt)


def m_extern(tag):
    def f(it, a, ty, callee):
        return Extern(tag)
    return f


def m_fresh_peer(it, a, ty, callee):
    from .maddr import peer_mh
    return Adt('peer_id::PeerId', 0, [peer_mh(Int(it.sym('local_peer', 8, internal=True), 8))])


def m_random_peer(it, a, ty, callee):
    # PeerId::random(): an id different from every id the harnesses use (they stay below 255)
    from .maddr import peer_mh
    return Adt('peer_id::PeerId', 0, [peer_mh(255)])


def install(it):
    A = it.add_model
    A(r"std::fmt::Arguments::<'_>::(from_str|new_const|new_v1|new|from_str_nonconst)(::<.*>)?", m_fmt_args)
    A(r'(core|std)::panicking::(panic_fmt|panic|panic_display|panic_explicit|panic_nounwind|begin_panic)(::<.*>)?', m_panic)
    A(r'std::rt::(panic_fmt|begin_panic)(::<.*>)?', m_panic)
    A(r'peer_id::PeerId::random', m_random_peer)
    A(r"<std::string::String as std::convert::From<std::borrow::Cow<'_, str>>>::from", lambda it, a, ty, c: a[0])
    A(r'std::net::SocketAddr::new', lambda it, a, ty, c: Adt('std::net::SocketAddr', 0, [a[0], a[1]]))
    A(r'<.* as std::string::ToString>::to_string', m_extern('string'))
    A(r'std::io::Error::new::<.*>', m_ioerr_new)
    A(r'std::io::Error::other::<.*>', lambda it, a, ty, c: IoErr('Other'))
    A(r'std::io::Error::kind', m_ioerr_kind)
    A(r'<std::io::ErrorKind as std::cmp::PartialEq>::(eq|ne)', m_kind_eq)
    A(r'<std::io::Error as std::convert::From<std::io::ErrorKind>>::from', m_ioerr_new)
    A(r'<(?:u\d+|i\d+|usize|isize|bool|std::option::Option<.*>|std::vec::Vec<.*>|std::collections::\w+<.*>|std::string::String|indexmap::IndexMap<.*>|std::sync::Arc<.*>|std::sync::atomic::Atomic.*|parking_lot::lock_api::(?:RwLock|Mutex)<.*>) as std::default::Default>::default', m_default)
    A(r'tokio::sync::mpsc::channel::<.*>', m_channel)
    A(r'tokio::sync::mpsc::Sender::<.*>::try_send', m_try_send)
    A(r'tokio::sync::mpsc::Sender::<.*>::send', m_send)
    A(r'tokio::sync::mpsc::Receiver::<.*>::try_recv', m_try_recv)
    A(r'tokio::sync::mpsc::Receiver::<.*>::poll_recv', m_poll_recv)
    A(r'tokio::sync::mpsc::Receiver::<.*>::recv', m_recv)
    A(r'<\{async fn body of tokio::sync::mpsc::Receiver<.*>::recv\(\)\} as (?:std::future|futures)::Future>::poll', m_recv_poll)
    A(r'<tokio::sync::mpsc::Sender<.*> as std::clone::Clone>::clone', m_sender_clone)
    A(r'tokio::sync::mpsc::Sender::<.*>::downgrade', m_sender_clone)
    A(r'tokio::sync::mpsc::WeakSender::<.*>::upgrade', m_weak_upgrade)
    A(r'<\{async fn body of tokio::sync::mpsc::Sender<.*>::send\(\)\} as (?:std::future|futures)::Future>::poll', m_send_poll)
    A(r'std::sync::Arc::<.*>::new', m_arc_new)
    A(r'parking_lot::lock_api::(RwLock|Mutex)::<.*>::new', m_identity0)
    A(r'std::sync::atomic::Atomic(?:\w+|::<.*>)::new', m_atomic_new)
    A(r'std::sync::atomic::Atomic(?:\w+|::<.*>)::fetch_add', m_fetch_add)
    A(r'std::sync::atomic::Atomic(?:\w+|::<.*>)::load', m_atomic_load)
    A(r'futures::stream::FuturesUnordered::<.*>::new', m_empty_seq)
    A(r'futures::stream::FuturesUnordered::<.*>::push', lambda it, a, ty, c: (it.store(a[0], Seq(it.load(a[0]).fields + (a[1],), 'vec')), UNIT)[1])
    A(r'futures::stream::FuturesUnordered::<.*>::(len)', lambda it, a, ty, c: usize(len(it.load(a[0]).fields)))
    A(r'futures::stream::FuturesUnordered::<.*>::(is_empty)', lambda it, a, ty, c: len(it.load(a[0]).fields) == 0)
    A(r'indexmap::IndexMap::<.*>::new', lambda it, a, ty, c: MapModel(kind='indexmap'))
    A(r'tokio_stream::StreamMap::<.*>::new', lambda it, a, ty, c: MapModel(kind='streammap'))
