"""Structured model of multiaddr::Multiaddr: a sequence of multiaddr::Protocol components.
The byte encoding is not modelled. Variant order of `Protocol` is read from the crate source."""
import glob
import re
import z3

from ..interp import Inconclusive, Violation, b_not, b_and, b_or
from ..values import Int, UNIT, Adt, Tup, Seq, Cell, Ptr, Model, usize, opt_none, opt_some, res_ok, res_err
from .core import Atom, deref
from .seq import LazyIter

PROTO = 'multiaddr::Protocol'


def load_protocol_enum(adts):
    files = glob.glob('/root/.cargo/registry/src/*/multiaddr-0.18.*/src/protocol.rs')
    src = open(sorted(files)[-1]).read()
    body = src[src.index('pub enum Protocol'):]
    body = body[body.index('{') + 1:body.index('\n}')]
    variants = []
    for line in body.split('\n'):
        line = line.strip()
        if not line or line.startswith('//') or line.startswith('#'):
            continue
        m = re.match(r'^(\w+)(\((.*)\))?,$', line)
        if m:
            nfields = 0 if not m.group(2) else len([x for x in re.split(r',(?![^<]*>)', m.group(3)) if x.strip()])
            variants.append((m.group(1), [str(i) for i in range(nfields)], len(variants)))
    adts.defs[PROTO] = variants
    return variants


class Maddr(Model):
    __slots__ = ('fields',)
    rust_type = 'multiaddr::Multiaddr'

    def __init__(self, comps=()):
        self.fields = tuple(comps)

    def eq_model(self, it, other):
        if not isinstance(other, Maddr) or len(other.fields) != len(self.fields):
            return False
        return b_and(*[it.veq(a, b) for a, b in zip(self.fields, other.fields)])

    def __repr__(self):
        return 'Maddr%s' % (list(self.fields),)


def proto(it, name, *payload):
    return Adt(PROTO, it.adts.variant_index(PROTO, name), payload)


def nd_multiaddr(it, a, ty, callee):
    from ..rt import _name
    if it.concrete is not None:
        from ..rt import _next_concrete
        ip = Int((10 << 24) | (_next_concrete(it) & 0xffff), 32)
    else:
        v = it.sym(_name(it, a[1]), 16)
        ip = Int(z3.Concat(z3.BitVecVal(10 << 8, 16), v), 32)
    return Maddr([proto(it, 'Ip4', ip), proto(it, 'Tcp', Int(4000, 16))])


def m_iter(it, a, ty, callee):
    return LazyIter(deref(it, a[0]).fields)


def m_with(it, a, ty, callee):
    return Maddr(a[0].fields + (a[1],))


def m_push(it, a, ty, callee):
    m = it.load(a[0])
    it.store(a[0], Maddr(m.fields + (a[1],)))
    return UNIT


def m_pop(it, a, ty, callee):
    m = it.load(a[0])
    if not m.fields:
        return opt_none()
    it.store(a[0], Maddr(m.fields[:-1]))
    return opt_some(m.fields[-1])


def m_empty(it, a, ty, callee):
    return Maddr()


def m_len_components(it, a, ty, callee):
    raise Inconclusive('Multiaddr::len (byte length) is not modelled')


def _reference_body(it, method, first_arg):
    """the reference implementation (libp2p-identity, interpreted from its own MIR dump)"""
    for name, b in it.bodies.items():
        if name.startswith('libp2p_identity::peer_id::<impl at') and name.endswith('>::' + method) and b.args and b.args[0][1] == first_arg:
            return b
    return None


def m_ref_from_multihash(it, a, ty, callee):
    b = _reference_body(it, 'from_multihash', 'multihash::Multihash<64>')
    if b is None:
        return m_peerid_try_from_model(it, a, ty, callee)
    return it.call_body(b, [as_mh(it, a[0])])


def m_ref_from_bytes(it, a, ty, callee):
    b = _reference_body(it, 'from_bytes', '&[u8]')
    if b is None:
        raise Inconclusive('reference PeerId::from_bytes body not in the libp2p-identity dump')
    return it.call_body(b, [a[0]])


def m_mh_from_bytes(it, a, ty, callee):
    """multihash::Multihash::<64>::from_bytes: varint code, varint size (<= 64), exactly `size` digest bytes, nothing after.
    The two varints are decoded by the real unsigned_varint::decode::u64 (interpreted from that crate's MIR)."""
    p = a[0]
    def varint(ptr):
        r = it.call('unsigned_varint::decode::u64', [ptr], None)
        if r.variant == 1:
            return None
        return r.fields[0].fields
    r = varint(p)
    if r is None:
        return res_err(Adt('multihash::Error', 0, ()))
    code, rest = r
    r = varint(rest)
    if r is None:
        return res_err(Adt('multihash::Error', 0, ()))
    size, rest = r
    data = it.load(rest).fields
    if not it.branch(it.binop('Le', size, Int(64, 64))):
        return res_err(Adt('multihash::Error', 0, ()))
    # read_exact(size) then "no bytes left": the remaining length must equal size
    if not it.branch(it.veq(size, Int(len(data), 64))):
        return res_err(Adt('multihash::Error', 0, ()))
    return res_ok(Mh(code, data))


def m_mh_read(it, a, ty, callee):
    """multihash::Multihash::<64>::read(&mut &[u8]): varint code, varint size (<= 64), `size` digest bytes; the slice is
    advanced past what was read (trailing bytes stay in it)."""
    import z3
    sp = a[0]
    sl = it.load(sp)
    def varint(ptr):
        r = it.call('unsigned_varint::decode::u64', [ptr], None)
        if r.variant == 1:
            return None
        return r.fields[0].fields
    err = res_err(Adt('multihash::Error', 0, ()))
    r = varint(sl)
    if r is None:
        return err
    code, rest = r
    r = varint(rest)
    if r is None:
        return err
    size, rest = r
    data = it.load(rest).fields
    top = min(64, len(data))
    if size.conc:
        k = size.v if size.v <= top else None
    else:
        conds = [size.z() == z3.BitVecVal(j, size.w) for j in range(top + 1)] + [z3.UGT(size.z(), z3.BitVecVal(top, size.w))]
        k = it.choose(top + 2, conds)
        if k == top + 1:
            k = None
    if k is None:
        return err
    base = rest.win[0] if rest.win else 0
    it.store(sp, Ptr(rest.cell, rest.path, (base + k, len(data) - k)))
    return res_ok(Mh(code, data[:k]))


def m_peerid_try_from(it, a, ty, callee):
    return m_ref_from_multihash(it, a, ty, callee)


def m_peerid_try_from_model(it, a, ty, callee):
    # libp2p_identity::PeerId::from_multihash: sha2-256 (any length), or identity with a digest of <= 42 bytes
    mh = as_mh(it, a[0])
    if it.branch(it.veq(mh.code, Int(0x12, 64))):
        return res_ok(Adt('multiaddr::PeerId', 0, [mh]))
    if it.branch(it.veq(mh.code, Int(0, 64))) and len(mh.digest) <= 42:
        return res_ok(Adt('multiaddr::PeerId', 0, [mh]))
    return res_err(mh)


def m_peerid_eq(it, a, ty, callee):
    x, y = deref(it, a[0]), deref(it, a[1])
    r = it.veq(as_mh(it, x), as_mh(it, y))
    return b_not(r) if callee.endswith('::ne') else r


IS_GLOBAL4 = z3.Function('ip4_is_global', z3.BitVecSort(32), z3.BoolSort())
IS_GLOBAL6 = z3.Function('ip6_is_global', z3.BitVecSort(128), z3.BoolSort())


def m_is_global(it, a, ty, callee):
    """ip_network::IpNetwork::is_global: exact for the address ranges the harnesses use, an uninterpreted predicate
    elsewhere (a counterexample resting on it would not replay natively and is then reported as inconclusive)"""
    ip = deref(it, a[0])
    if isinstance(ip, Adt) and ip.ty == 'std::net::IpAddr':
        ip = ip.fields[0]
    if isinstance(ip, Int):
        if ip.conc:
            v = ip.v
            if ip.w == 32:
                if (v >> 24) in (10, 127, 0):
                    return False
                if (v >> 8) == ((8 << 16) | (8 << 8) | 8):
                    return True
            else:
                if v in (0, 1) or (v >> 96) == 0x20010db8:
                    return False
        return (IS_GLOBAL4 if ip.w == 32 else IS_GLOBAL6)(ip.z())
    raise Inconclusive('is_global on %r' % (ip,))


class Mh(Model):
    """multihash::Multihash<64>: (code: u64, digest bytes with per-path concrete length <= 64)"""
    __slots__ = ('code', 'digest')
    rust_type = 'multihash::Multihash<64>'
    fields = ()

    def __init__(self, code, digest):
        self.code = code
        self.digest = tuple(digest)

    def eq_model(self, it, other):
        if not isinstance(other, Mh) or len(other.digest) != len(self.digest):
            return False
        return b_and(it.veq(self.code, other.code), *[it.veq(x, y) for x, y in zip(self.digest, other.digest)])

    def __repr__(self):
        return 'Mh(%r, %d bytes)' % (self.code, len(self.digest))


def peer_mh(v):
    """the harness' peer ids: identity multihash of 32 bytes whose first byte is v (see verif_rt::Nondet::peer_id)"""
    b0 = v if isinstance(v, Int) else Int(v, 8)
    return Mh(Int(0, 64), [b0] + [Int(0, 8)] * 31)


def as_mh(it, v):
    v = deref(it, v)
    if isinstance(v, Adt) and v.ty in ('multiaddr::PeerId', 'peer_id::PeerId', 'libp2p_identity::peer_id::PeerId'):
        v = v.fields[0]
    if not isinstance(v, Mh):
        raise Inconclusive('not a multihash: %r' % (v,))
    return v


def m_mh_code(it, a, ty, callee):
    return as_mh(it, a[0]).code


def m_mh_digest(it, a, ty, callee):
    d = as_mh(it, a[0]).digest
    cell = Cell('digest', Seq(d, 'bytes'))
    return Ptr(cell, (), (0, len(d)))


def m_mh_size(it, a, ty, callee):
    return Int(len(as_mh(it, a[0]).digest), 8)


def varint_bytes(n):
    out = []
    while True:
        b = n & 0x7f
        n >>= 7
        if n:
            out.append(b | 0x80)
        else:
            out.append(b)
            return out


def varint_ints(it, x):
    """unsigned-varint encoding of a (possibly symbolic) u64 as a list of byte Ints; the length is decided by a fork"""
    if x.conc:
        return [Int(b, 8) for b in varint_bytes(x.v)]
    z = x.z()
    conds = []
    for k in range(1, 11):
        hi = z3.ULT(z, z3.BitVecVal(1 << (7 * k), 64)) if k < 10 else True
        lo = z3.UGE(z, z3.BitVecVal(1 << (7 * (k - 1)), 64)) if k > 1 else True
        c = hi if lo is True else (lo if hi is True else z3.And(lo, hi))
        conds.append(c)
    k = it.choose(10, conds) + 1
    out = []
    for i in range(k):
        b = z3.Extract(7, 0, z3.LShR(z, z3.BitVecVal(7 * i, 64))) & z3.BitVecVal(0x7f, 8)
        if i < k - 1:
            b = b | z3.BitVecVal(0x80, 8)
        out.append(Int(b, 8))
    return out


def m_mh_to_bytes(it, a, ty, callee):
    mh = as_mh(it, a[0])
    hdr = varint_ints(it, mh.code) + [Int(b, 8) for b in varint_bytes(len(mh.digest))]
    return Seq(hdr + list(mh.digest), 'vec')


def m_mh_wrap(it, a, ty, callee):
    code, data = a
    bs = it.load(data).fields
    if len(bs) > 64:
        return res_err(Adt('multihash::Error', 0, ()))
    return res_ok(Mh(code, bs))


def m_mh_from_peerid(it, a, ty, callee):
    return as_mh(it, a[0])


CODES = {'Sha2_256': 0x12, 'Sha2_512': 0x13, 'Identity': 0x00}


def m_code_to_u64(it, a, ty, callee):
    v = a[0]
    txt = getattr(v, 'what', None) or repr(v)
    for k, c in CODES.items():
        if k in txt:
            return Int(c, 64)
    raise Inconclusive('multihash code of %r' % (v,))


def m_ipv4_new(it, a, ty, callee):
    if all(x.conc for x in a):
        return Int((a[0].v << 24) | (a[1].v << 16) | (a[2].v << 8) | a[3].v, 32)
    return Int(z3.Concat(*[x.z() for x in a]), 32)


def m_ipv6_new(it, a, ty, callee):
    if all(x.conc for x in a):
        v = 0
        for x in a:
            v = (v << 16) | x.v
        return Int(v, 128)
    return Int(z3.Concat(*[x.z() for x in a]), 128)


def _ip_of(it, v):
    v = deref(it, v)
    if isinstance(v, Adt) and v.ty == 'std::net::IpAddr':
        v = v.fields[0]
    return v


def m_ip_is_unspecified(it, a, ty, callee):
    ip = _ip_of(it, a[0])
    return it.veq(ip, Int(0, ip.w))


def m_ip_is_loopback(it, a, ty, callee):
    ip = _ip_of(it, a[0])
    if ip.w == 32:
        top = Int(ip.v >> 24, 8) if ip.conc else Int(z3.Extract(31, 24, ip.z()), 8)
        return it.veq(top, Int(127, 8))
    return it.veq(ip, Int(1, 128))


def m_maddr_from_iter(it, a, ty, callee):
    from .seq import drain, as_lazy
    return Maddr(drain(it, as_lazy(a[0])))


def install(it):
    load_protocol_enum(it.adts)
    it.add_model(r'std::net::Ipv6Addr::new', m_ipv6_new)
    it.add_model(r'std::net::(Ipv4Addr|Ipv6Addr|IpAddr)::is_unspecified', m_ip_is_unspecified)
    it.add_model(r'std::net::(Ipv4Addr|Ipv6Addr|IpAddr)::is_loopback', m_ip_is_loopback)
    it.add_model(r'<.* as std::iter::Iterator>::collect::<multiaddr::Multiaddr>', m_maddr_from_iter)
    it.add_model(r'<multiaddr::Multiaddr as std::iter::FromIterator<.*>>::from_iter::<.*>', m_maddr_from_iter)
    it.add_model(r'std::net::Ipv4Addr::new', m_ipv4_new)
    it.add_model(r'multihash::Multihash::<64>::code', m_mh_code)
    it.add_model(r'multihash::Multihash::<64>::digest', m_mh_digest)
    it.add_model(r'multihash::Multihash::<64>::size', m_mh_size)
    it.add_model(r'multihash::Multihash::<64>::to_bytes', m_mh_to_bytes)
    it.add_model(r'multihash::Multihash::<64>::wrap', m_mh_wrap)
    it.add_model(r'multihash::Multihash::<64>::from_bytes', m_mh_from_bytes)
    it.add_model(r'multihash::Multihash::<64>::read::<.*>', m_mh_read)
    it.add_model(r'(multiaddr|libp2p_identity)::PeerId::from_bytes', m_ref_from_bytes)
    it.add_model(r'(multiaddr|libp2p_identity)::PeerId::from_multihash', m_ref_from_multihash)
    it.add_model(r'(multiaddr|libp2p_identity)::PeerId::to_bytes', m_mh_to_bytes)
    it.add_model(r'<multihash::Multihash<64> as std::convert::From<multiaddr::PeerId>>::from', m_mh_from_peerid)
    it.add_model(r'<multiaddr::PeerId as std::convert::Into<multihash::Multihash<64>>>::into', m_mh_from_peerid)
    it.add_model(r'<ip_network::IpNetwork as std::convert::From<std::net::Ipv[46]Addr>>::from', lambda it, a, ty, c: a[0])
    it.add_model(r'ip_network::IpNetwork::is_global', m_is_global)
    A = it.add_model
    A(r'(?:\w+::)*verif_rt::Nondet::multiaddr', nd_multiaddr)
    A(r'multiaddr::Multiaddr::iter', m_iter)
    A(r'multiaddr::Multiaddr::with', m_with)
    A(r'multiaddr::Multiaddr::push', m_push)
    A(r'multiaddr::Multiaddr::pop', m_pop)
    A(r'multiaddr::Multiaddr::empty', m_empty)
    A(r'<multiaddr::PeerId as std::convert::TryFrom<multihash::Multihash<64>>>::try_from', m_peerid_try_from)
    A(r'<multihash::Multihash<64> as std::cmp::PartialEq<multiaddr::PeerId>>::(eq|ne)', m_peerid_eq)
    A(r'<multiaddr::PeerId as std::cmp::PartialEq(<.*>)?>::(eq|ne)', m_peerid_eq)
    A(r'<(peer_id|multiaddr)::PeerId as std::convert::AsRef<multihash::Multihash<64>>>::as_ref', lambda it, a, ty, c: Ptr(a[0].cell, a[0].path + (0,)))
