"""prost runtime (protobuf wire format) on concrete buffers.

The message-specific code (`merge_field`, `encode_raw`, `encoded_len`, `Default`) is generated into litep2p by
prost-derive and is interpreted from its MIR like any other code of the crate; what is modelled here is the prost
*runtime* it calls: key/varint/length-delimited primitives, nested message merge/encode, `Message::decode` and
`Message::encode_to_vec`.  All buffers are concrete in the harnesses that use it (anything else is inconclusive);
the native replay runs the real prost, so every conformance vector cross-checks this model."""
import re

from ..interp import Inconclusive
from ..values import Int, UNIT, Adt, Seq, Cell, Ptr, usize, res_ok, res_err
from .bytesm import byte_seq

WT = 'prost::encoding::WireType'
VARINT, FIXED64, LEN, SGROUP, EGROUP, FIXED32 = range(6)


def _err(msg):
    return res_err(Adt('prost::DecodeError', 0, ()))


def _bytes_of(it, p):
    v = p
    while isinstance(v, Ptr):
        v = it.load(v)
    out = []
    for b in v.fields:
        if not (isinstance(b, Int) and b.conc):
            raise Inconclusive('protobuf model over symbolic bytes')
        out.append(b.v)
    return out


def _buf_ptr(it, p):
    while isinstance(it.load(p), Ptr):
        p = it.load(p)
    return p


def _set_buf(it, p, data):
    cur = it.load(p)
    it.store(p, Seq([Int(b, 8) for b in data], cur.kind if isinstance(cur, Seq) else 'vec'))


def _varint(data, pos):
    """-> (value, new_pos) or None"""
    v = 0
    shift = 0
    for i in range(10):
        if pos + i >= len(data):
            return None
        b = data[pos + i]
        v |= (b & 0x7F) << shift
        if b < 0x80:
            if i == 9 and b > 1:
                return None
            return (v & ((1 << 64) - 1), pos + i + 1)
        shift += 7
    return None


def _enc_varint(v):
    v &= (1 << 64) - 1
    out = []
    while True:
        b = v & 0x7F
        v >>= 7
        if v:
            out.append(b | 0x80)
        else:
            out.append(b)
            return out


def _key(tag, wt):
    return _enc_varint((tag << 3) | wt)


def _wt(v):
    if isinstance(v, Adt):
        return v.variant
    raise Inconclusive('wire type %r' % (v,))


def _generic(callee, idx=0):
    from .. import mir
    k = callee.index('::<')
    inner = callee[k + 3:mir.match_bracket(callee, k + 2)]
    return [t.strip() for t in mir.split_top(inner)][idx]


# ------------------------------------------------------------------------------------------------ decoding
def decode_message(it, ty, data, ctx, into=None):
    """merge `data` into a fresh (or the given) message of type `ty` by calling its generated merge_field"""
    cell = into if into is not None else Cell('pbmsg', it.call('<%s as std::default::Default>::default' % ty, [], ty))
    msg = Ptr(cell) if into is None else into
    pos = 0
    while pos < len(data):
        k = _varint(data, pos)
        if k is None:
            return _err('invalid varint')
        key, pos = k
        if key > 0xFFFFFFFF:
            return _err('invalid key value')
        wt = key & 7
        tag = key >> 3
        if wt > 5 or tag < 1:
            return _err('invalid wire type / tag')
        buf = Cell('pbbuf', Seq([Int(b, 8) for b in data[pos:]], 'bytesmut'))
        r = it.call('<%s as prost::Message>::merge_field' % ty, [msg, Int(tag, 32), Adt(WT, wt, ()), Ptr(buf), ctx], None)
        if isinstance(r, Adt) and r.variant == 1:
            return r
        pos = len(data) - len(it.load(Ptr(buf)).fields)
    return res_ok(it.load(msg)) if into is None else res_ok(UNIT)


def m_decode(it, a, ty, callee):
    m = re.match(r'^<(.*) as prost::Message>::decode::<.*>$', callee, re.S)
    data = _bytes_of(it, a[0])
    return decode_message(it, m.group(1), data, Adt('prost::encoding::DecodeContext', 0, ()))


def _take_len_delimited(it, wt, bufp):
    """-> (payload bytes, rest bytes) or an Err value"""
    if _wt(wt) != LEN:
        return _err('invalid wire type')
    p = _buf_ptr(it, bufp)
    data = _bytes_of(it, p)
    k = _varint(data, 0)
    if k is None:
        return _err('invalid varint')
    n, pos = k
    if n > len(data) - pos:
        return _err('buffer underflow')
    return (data[pos:pos + n], data[pos + n:], p)


def m_bytes_merge(it, a, ty, callee):
    wt, value, buf, ctx = a
    r = _take_len_delimited(it, wt, buf)
    if isinstance(r, Adt):
        return r
    payload, rest, p = r
    it.store(value, Seq([Int(b, 8) for b in payload], 'vec'))
    _set_buf(it, p, rest)
    return res_ok(UNIT)


def m_bytes_merge_repeated(it, a, ty, callee):
    wt, values, buf, ctx = a
    r = _take_len_delimited(it, wt, buf)
    if isinstance(r, Adt):
        return r
    payload, rest, p = r
    cur = it.load(values)
    it.store(values, Seq(tuple(cur.fields) + (Seq([Int(b, 8) for b in payload], 'vec'),), 'vec'))
    _set_buf(it, p, rest)
    return res_ok(UNIT)


def _varint_merge(conv):
    def f(it, a, ty, callee):
        wt, value, buf, ctx = a
        if _wt(wt) != VARINT:
            return _err('invalid wire type')
        p = _buf_ptr(it, buf)
        data = _bytes_of(it, p)
        k = _varint(data, 0)
        if k is None:
            return _err('invalid varint')
        v, pos = k
        it.store(value, conv(v))
        _set_buf(it, p, data[pos:])
        return res_ok(UNIT)
    return f


def _i32(v):
    v &= 0xFFFFFFFF
    return Int(v - (1 << 32) if v >= (1 << 31) else v, 32, True)


def _u32(v):
    return Int(v & 0xFFFFFFFF, 32, False)


def m_string_merge(it, a, ty, callee):
    """string::merge: the bytes must be valid UTF-8 (otherwise DecodeError and the field is left empty)"""
    wt, value, buf, ctx = a
    r = _take_len_delimited(it, wt, buf)
    if isinstance(r, Adt):
        return r
    payload, rest, p = r
    try:
        bytes(payload).decode('utf-8')
    except UnicodeDecodeError:
        it.store(value, Seq((), 'vec'))
        _set_buf(it, p, rest)
        return _err('invalid string value: data is not UTF-8 encoded')
    it.store(value, Seq([Int(b, 8) for b in payload], 'vec'))
    _set_buf(it, p, rest)
    return res_ok(UNIT)


def m_message_merge_repeated(it, a, ty, callee):
    wt, values, buf, ctx = a
    r = _take_len_delimited(it, wt, buf)
    if isinstance(r, Adt):
        return r
    payload, rest, p = r
    mty = _generic(callee, 0)
    d = decode_message(it, mty, payload, ctx)
    if d.variant == 1:
        return d
    cur = it.load(values)
    it.store(values, Seq(tuple(cur.fields) + (d.fields[0],), 'vec'))
    _set_buf(it, p, rest)
    return res_ok(UNIT)


def m_message_merge(it, a, ty, callee):
    wt, msg, buf, ctx = a
    r = _take_len_delimited(it, wt, buf)
    if isinstance(r, Adt):
        return r
    payload, rest, p = r
    mty = _generic(callee, 0)
    while isinstance(it.load(msg), Ptr):
        msg = it.load(msg)
    d = decode_message(it, mty, payload, ctx, into=msg)
    if d.variant == 1:
        return d
    _set_buf(it, p, rest)
    return res_ok(UNIT)


def _skip(data, pos, w, tag, depth):
    """position after the field of wire type `w` that starts at `pos`, or None for a decode error (prost::encoding::skip_field)"""
    if depth > 100:
        return None
    if w == VARINT:
        k = _varint(data, pos)
        return None if k is None else k[1]
    if w == FIXED64:
        return pos + 8 if pos + 8 <= len(data) else None
    if w == FIXED32:
        return pos + 4 if pos + 4 <= len(data) else None
    if w == LEN:
        k = _varint(data, pos)
        if k is None or k[1] + k[0] > len(data):
            return None
        return k[1] + k[0]
    if w == SGROUP:
        while True:
            k = _varint(data, pos)
            if k is None or k[0] > 0xFFFFFFFF:
                return None
            key, pos = k
            iw, itag = key & 7, key >> 3
            if iw > 5 or itag < 1:
                return None
            if iw == EGROUP:
                return pos if itag == tag else None
            pos = _skip(data, pos, iw, itag, depth + 1)
            if pos is None:
                return None
    return None            # an end-group tag outside a group


def m_skip_field(it, a, ty, callee):
    wt, tag, buf, ctx = a
    p = _buf_ptr(it, buf)
    data = _bytes_of(it, p)
    n = _skip(data, 0, _wt(wt), _tag(tag), 0)
    if n is None:
        return _err('cannot skip field')
    _set_buf(it, p, data[n:])
    return res_ok(UNIT)


# ------------------------------------------------------------------------------------------------ encoding
def _append(it, bufp, data):
    p = _buf_ptr(it, bufp)
    cur = it.load(p)
    it.store(p, Seq(tuple(cur.fields) + tuple(Int(b, 8) for b in data), cur.kind))


def _tag(v):
    if isinstance(v, Int) and v.conc:
        return v.v
    raise Inconclusive('symbolic protobuf tag')


def _conc_int(it, p):
    v = p
    while isinstance(v, Ptr):
        v = it.load(v)
    if isinstance(v, bool):
        return 1 if v else 0
    if isinstance(v, Int) and v.conc:
        return v.sval() if v.s else v.v
    raise Inconclusive('protobuf scalar is symbolic: %r' % (v,))


def m_bytes_encode(it, a, ty, callee):
    tag, value, buf = a
    data = _bytes_of(it, value)
    _append(it, buf, _key(_tag(tag), LEN) + _enc_varint(len(data)) + data)
    return UNIT


def m_bytes_encode_repeated(it, a, ty, callee):
    tag, values, buf = a
    v = values
    while isinstance(v, Ptr):
        v = it.load(v)
    for item in v.fields:
        data = _bytes_of(it, item)
        _append(it, buf, _key(_tag(tag), LEN) + _enc_varint(len(data)) + data)
    return UNIT


def m_varint_encode(it, a, ty, callee):
    tag, value, buf = a
    _append(it, buf, _key(_tag(tag), VARINT) + _enc_varint(_conc_int(it, value)))
    return UNIT


def _msg_len(it, mty, msgp):
    r = it.call('<%s as prost::Message>::encoded_len' % mty, [msgp], 'usize')
    if not (isinstance(r, Int) and r.conc):
        raise Inconclusive('symbolic encoded_len')
    return r.v


def m_message_encode(it, a, ty, callee):
    tag, msg, buf = a
    mty = _generic(callee, 0)
    _append(it, buf, _key(_tag(tag), LEN) + _enc_varint(_msg_len(it, mty, msg)))
    it.call('<%s as prost::Message>::encode_raw' % mty, [msg, buf], None)
    return UNIT


def m_bytes_encoded_len(it, a, ty, callee):
    tag, value = a
    n = len(_bytes_of(it, value))
    return usize(len(_key(_tag(tag), LEN)) + len(_enc_varint(n)) + n)


def m_bytes_encoded_len_repeated(it, a, ty, callee):
    tag, values = a
    v = values
    while isinstance(v, Ptr):
        v = it.load(v)
    total = 0
    for item in v.fields:
        n = len(_bytes_of(it, item))
        total += len(_key(_tag(tag), LEN)) + len(_enc_varint(n)) + n
    return usize(total)


def m_varint_encoded_len(it, a, ty, callee):
    tag, value = a
    return usize(len(_key(_tag(tag), VARINT)) + len(_enc_varint(_conc_int(it, value))))


def m_message_encoded_len(it, a, ty, callee):
    tag, msg = a
    n = _msg_len(it, _generic(callee, 0), msg)
    return usize(len(_key(_tag(tag), LEN)) + len(_enc_varint(n)) + n)


def m_message_encoded_len_repeated(it, a, ty, callee):
    tag, msgs = a
    mty = _generic(callee, 0)
    p = msgs
    while isinstance(it.load(p), Ptr):
        p = it.load(p)
    seq = it.load(p)
    base = p.win[0] if p.win else 0
    total = 0
    for i in range(len(seq.fields) if not p.win else p.win[1]):
        n = _msg_len(it, mty, Ptr(p.cell, p.path + (base + i,)))
        total += len(_key(_tag(tag), LEN)) + len(_enc_varint(n)) + n
    return usize(total)


def m_encode_to_vec(it, a, ty, callee):
    m = re.match(r'^<(.*) as prost::Message>::encode_to_vec$', callee, re.S)
    buf = Cell('pbout', Seq((), 'vec'))
    it.call('<%s as prost::Message>::encode_raw' % m.group(1), [a[0], Ptr(buf)], None)
    return it.load(Ptr(buf))


def m_encode(it, a, ty, callee):
    """Message::encode(&self, &mut impl BufMut): growable buffers (Vec, BytesMut) never lack capacity"""
    m = re.match(r'^<(.*) as prost::Message>::encode::<.*>$', callee, re.S)
    it.call('<%s as prost::Message>::encode_raw' % m.group(1), [a[0], a[1]], None)
    return res_ok(UNIT)


def install(it):
    A = it.add_model
    P = r'<protocol::libp2p::(?:bitswap::schema::bitswap|kademlia::schema::kademlia)::\w+(?:::\w+)* as prost::Message>'
    A(P + r'::decode::<.*>', m_decode)
    A(P + r'::encode_to_vec', m_encode_to_vec)
    A(P + r'::encode::<(?:bytes::BytesMut|std::vec::Vec<u8>)>', m_encode)
    A(r'prost::encoding::bytes::merge::<.*>', m_bytes_merge)
    A(r'prost::encoding::bytes::merge_repeated::<.*>', m_bytes_merge_repeated)
    A(r'prost::encoding::int32::merge::<.*>', _varint_merge(_i32))
    A(r'prost::encoding::bool::merge::<.*>', _varint_merge(lambda v: v != 0))
    A(r'prost::encoding::uint32::merge::<.*>', _varint_merge(_u32))
    A(r'prost::encoding::string::merge::<.*>', m_string_merge)
    A(r'prost::encoding::string::encode::<.*>', m_bytes_encode)
    A(r'prost::encoding::string::encoded_len', m_bytes_encoded_len)
    A(r'prost::encoding::uint32::encode::<.*>', m_varint_encode)
    A(r'prost::encoding::uint32::encoded_len', m_varint_encoded_len)
    A(r'prost::encoding::message::merge_repeated::<.*>', m_message_merge_repeated)
    A(r'prost::encoding::message::merge::<.*>', m_message_merge)
    A(r'prost::encoding::skip_field::<.*>', m_skip_field)
    A(r'prost::DecodeError::push', lambda it, a, ty, c: UNIT)
    A(r'prost::encoding::bytes::encode::<.*>', m_bytes_encode)
    A(r'prost::encoding::bytes::encode_repeated::<.*>', m_bytes_encode_repeated)
    A(r'prost::encoding::(int32|bool)::encode::<.*>', m_varint_encode)
    A(r'prost::encoding::message::encode::<.*>', m_message_encode)
    A(r'prost::encoding::bytes::encoded_len(::<.*>)?', m_bytes_encoded_len)
    A(r'prost::encoding::bytes::encoded_len_repeated(::<.*>)?', m_bytes_encoded_len_repeated)
    A(r'prost::encoding::(int32|bool)::encoded_len', m_varint_encoded_len)
    A(r'prost::encoding::message::encoded_len::<.*>', m_message_encoded_len)
    A(r'prost::encoding::message::encoded_len_repeated::<.*>', m_message_encoded_len_repeated)
