"""Vec / slice / VecDeque / iterator-adaptor models (sequence semantics, closures interpreted)."""
import re
import z3

from ..interp import Inconclusive, Violation, b_not, b_and, b_or
from ..values import Int, UNIT, Adt, Tup, Seq, Cell, Ptr, Model, usize, opt_none, opt_some
from .core import IterModel, SetModel, MapModel, deref, m_iter_next


class PtrSeq(object):
    """element pointers of a (possibly very long) sequence, produced on demand"""
    __slots__ = ('cell', 'path', 'base', 'n')

    def __init__(self, cell, path, base, n):
        self.cell = cell
        self.path = path
        self.base = base
        self.n = n

    def __len__(self):
        return self.n

    def __getitem__(self, i):
        if isinstance(i, slice):
            return [Ptr(self.cell, self.path + (self.base + k,)) for k in range(*i.indices(self.n))]
        if i < 0:
            i += self.n
        if not 0 <= i < self.n:
            raise IndexError(i)
        return Ptr(self.cell, self.path + (self.base + i,))

    def __iter__(self):
        for k in range(self.n):
            yield Ptr(self.cell, self.path + (self.base + k,))


class LazyIter(IterModel):
    """source items + adaptor stages applied on demand"""
    __slots__ = ('items', 'pos', 'stages', 'count')

    def __init__(self, items, pos=0, stages=(), count=0):
        self.items = items if isinstance(items, (tuple, PtrSeq)) else tuple(items)
        self.pos = pos
        self.stages = tuple(stages)
        self.count = count


_IT = [None]


def as_lazy(v):
    if isinstance(v, LazyIter):
        return v
    if isinstance(v, IterModel):
        return LazyIter(v.items, v.pos)
    if isinstance(v, Adt) and v.ty.endswith('::Range'):
        lo, hi = v.fields[0], v.fields[1]
        if lo.conc and hi.conc:
            return LazyIter([Int(i, lo.w, lo.s) for i in range(lo.v, hi.v)])
        raise Inconclusive('symbolic range iteration')
    if isinstance(v, Adt) and _IT[0] is not None and _IT[0].resolve('<%s as std::iter::Iterator>::next' % v.ty):
        # an iterator type of the crate under test: run its real `next` until exhaustion (finite iterators only)
        it = _IT[0]
        cell = Cell('iter', v)
        items = []
        while True:
            r = it.call('<%s as std::iter::Iterator>::next' % v.ty, [Ptr(cell)], None)
            if r.variant == 0:
                break
            items.append(r.fields[0])
            if len(items) > 4096:
                raise Inconclusive('iterator does not terminate within 4096 items')
        return LazyIter(items)
    raise Inconclusive('not an iterator model: %r' % (v,))


def slice_items(it, p):
    """pointer to a sequence (Vec cell or slice window) -> list of element pointers"""
    tgt = it.load(p)
    base = p.win[0] if p.win else 0
    n = len(tgt.fields)
    if n > 64:
        return PtrSeq(p.cell, p.path, base, n)
    return [Ptr(p.cell, p.path + (base + i,)) for i in range(n)]


def pull(it, li):
    """advance a LazyIter by one produced element -> (new_iter, value or None)"""
    pos = li.pos
    count = li.count
    while pos < len(li.items):
        x = li.items[pos]
        pos += 1
        keep = True
        for st in li.stages:
            k = st[0]
            if k == 'map':
                x = it.call_value(st[1], [x], None)
            elif k == 'filter':
                c = Cell('it', x)
                if not it.branch(it.call_value(st[1], [Ptr(c)], None)):
                    keep = False
                    break
            elif k == 'filter_map':
                r = it.call_value(st[1], [x], None)
                if r.variant == 0:
                    keep = False
                    break
                x = r.fields[0]
            elif k in ('copied', 'cloned'):
                x = it.load(x) if isinstance(x, Ptr) else x
            elif k == 'enumerate':
                x = Tup([usize(count), x])
            elif k == 'take':
                if count >= st[1]:
                    return LazyIter(li.items, len(li.items), li.stages, count), None
            else:
                raise Inconclusive('iterator stage ' + k)
        if keep:
            return LazyIter(li.items, pos, li.stages, count + 1), x
    return LazyIter(li.items, pos, li.stages, count), None


def drain(it, li):
    out = []
    while True:
        li, x = pull(it, li)
        if x is None and li.pos >= len(li.items):
            break
        if x is not None:
            out.append(x)
    return out


def m_vec_deref(it, a, ty, callee):
    p = a[0]
    v = it.load(p)
    if isinstance(v, Model) and not isinstance(v, (IterModel,)) and not hasattr(v, 'keys') and v.fields == ():
        return p            # opaque token standing for a Vec<u8> (e.g. a signature): the slice *is* the token
    return Ptr(p.cell, p.path, (0, len(v.fields)))


def m_slice_iter(it, a, ty, callee):
    return LazyIter(slice_items(it, a[0]))


def m_vec_iter(it, a, ty, callee):
    return LazyIter(slice_items(it, a[0]))


def m_into_iter(it, a, ty, callee):
    v = a[0]
    if isinstance(v, IterModel):
        return as_lazy(v)
    if isinstance(v, Seq):
        return LazyIter(v.fields)
    if isinstance(v, SetModel):
        return LazyIter(v.fields)
    if isinstance(v, MapModel):
        return LazyIter([Tup([k, x]) for k, x in zip(v.keys, v.fields)])
    if isinstance(v, Ptr):
        tgt = it.load(v)
        if isinstance(tgt, MapModel):
            return LazyIter([Tup([Ptr(Cell('k', k)), Ptr(v.cell, v.path + (i,))]) for i, k in enumerate(tgt.keys)])
        return LazyIter(slice_items(it, v))
    if isinstance(v, Adt) and v.ty.endswith('Range'):
        lo, hi = v.fields[0], v.fields[1]
        if not (lo.conc and hi.conc):
            raise Inconclusive('symbolic range iteration')
        return LazyIter([Int(i, lo.w, lo.s) for i in range(lo.v, hi.v)])
    if isinstance(v, Adt) and v.ty.endswith('Option'):
        return LazyIter(v.fields if v.variant == 1 else ())
    raise Inconclusive('into_iter on %r' % (v,))


def m_stage(kind):
    def f(it, a, ty, callee):
        li = as_lazy(a[0])
        st = (kind,) + tuple(a[1:])
        if kind == 'take':
            n = a[1]
            if not n.conc:
                raise Inconclusive('take(symbolic)')
            st = ('take', n.v)
        return LazyIter(li.items, li.pos, li.stages + (st,), li.count)
    return f


def m_rev(it, a, ty, callee):
    li = as_lazy(a[0])
    if li.stages:
        raise Inconclusive('rev after adaptors')
    return LazyIter(tuple(reversed(li.items[li.pos:])))


def m_next(it, a, ty, callee):
    p = a[0]
    li = it.load(p)
    if not isinstance(li, IterModel):
        name = it.resolve(callee)
        if name is None:
            raise Inconclusive('Iterator::next on %r' % (li,))
        return it.call_body(it.bodies[name], a)
    if not isinstance(li, LazyIter):
        return m_iter_next(it, a, ty, callee)
    li2, x = pull(it, li)
    it.store(p, li2)
    return opt_none() if x is None else opt_some(x)


def m_collect(it, a, ty, callee):
    xs = drain(it, as_lazy(a[0]))
    m = re.search(r'::collect::<(.*)>$', callee, re.S)
    tgt = m.group(1) if m else (ty or '')
    if tgt.startswith('std::collections::HashSet') or tgt.startswith('std::collections::BTreeSet'):
        s = SetModel()
        for x in xs:
            if s.find(it, x) is None:
                s = SetModel(s.fields + (x,))
        return s
    if tgt.startswith('std::collections::HashMap'):
        m = MapModel()
        for x in xs:
            k, v = x.fields
            i = m.find(it, k)
            m = m.with_field(i, v) if i is not None else MapModel(m.keys + (k,), m.fields + (v,))
        return m
    return Seq(xs, 'vec')


def m_last(it, a, ty, callee):
    xs = drain(it, as_lazy(a[0]))
    return opt_some(xs[-1]) if xs else opt_none()


def m_count(it, a, ty, callee):
    return usize(len(drain(it, as_lazy(a[0]))))


def m_any_all(which):
    def f(it, a, ty, callee):
        p = a[0]
        li = as_lazy(it.load(p) if isinstance(p, Ptr) else p)
        while True:
            li, x = pull(it, li)
            if x is None and li.pos >= len(li.items):
                break
            if x is None:
                continue
            r = it.branch(it.call_value(a[1], [x], None))
            if which == 'any' and r:
                return True
            if which == 'all' and not r:
                return False
        return which == 'all'
    return f


def m_find_map(it, a, ty, callee):
    p = a[0]
    li = as_lazy(it.load(p) if isinstance(p, Ptr) else p)
    while True:
        li, x = pull(it, li)
        if x is None and li.pos >= len(li.items):
            return opt_none()
        if x is None:
            continue
        r = it.call_value(a[1], [x], None)
        if r.variant == 1:
            if isinstance(p, Ptr):
                it.store(p, li)
            return r


def m_find(it, a, ty, callee):
    p = a[0]
    li = as_lazy(it.load(p) if isinstance(p, Ptr) else p)
    while True:
        li, x = pull(it, li)
        if x is None and li.pos >= len(li.items):
            if isinstance(p, Ptr):
                it.store(p, li)
            return opt_none()
        if x is None:
            continue
        if it.branch(it.call_value(a[1], [Ptr(Cell('it', x))], None)):
            if isinstance(p, Ptr):
                it.store(p, li)
            return opt_some(x)


def m_nth(it, a, ty, callee):
    p, n = a
    if not n.conc:
        raise Inconclusive('nth(symbolic)')
    li = as_lazy(it.load(p) if isinstance(p, Ptr) else p)
    x = None
    for _ in range(n.v + 1):
        while True:
            li, x = pull(it, li)
            if x is not None or li.pos >= len(li.items):
                break
        if x is None:
            break
    if isinstance(p, Ptr):
        it.store(p, li)
    return opt_none() if x is None else opt_some(x)


def m_take_while(it, a, ty, callee):
    out = []
    for x in drain(it, as_lazy(a[0])):
        if not it.branch(it.call_value(a[1], [Ptr(Cell('it', x))], None)):
            break
        out.append(x)
    return LazyIter(out)


def m_for_each(it, a, ty, callee):
    for x in drain(it, as_lazy(a[0])):
        it.call_value(a[1], [x], None)
    return UNIT


def m_min_max(which):
    def f(it, a, ty, callee):
        xs = drain(it, as_lazy(a[0]))
        if not xs:
            return opt_none()
        best = xs[0]
        for x in xs[1:]:
            ety = _elem_ty(callee)
            if ety == 'unknown':
                ety = it.runtime_type(best) or 'unknown'
            o = it.call('<%s as std::cmp::Ord>::cmp' % ety, [_ref(best), _ref(x)], None)
            # Iterator::min returns the first minimum, max the last maximum
            if which == 'min' and o.variant == 2:
                best = x
            if which == 'max' and o.variant != 2:
                best = x
        return opt_some(best)
    return f


def _ref(x):
    return x if isinstance(x, Ptr) else Ptr(Cell('tmp', x))


def _elem_ty(callee):
    m = re.search(r"Item = &?(?:'\w+ )?([^>]*)>", callee)
    return m.group(1) if m else 'unknown'


def m_vec_push(it, a, ty, callee):
    p, x = a
    v = it.load(p)
    it.store(p, Seq(v.fields + (x,), v.kind))
    return UNIT


def m_vec_pop(it, a, ty, callee):
    p = a[0]
    v = it.load(p)
    if not v.fields:
        return opt_none()
    it.store(p, Seq(v.fields[:-1], v.kind))
    return opt_some(v.fields[-1])


def m_pop_front(it, a, ty, callee):
    p = a[0]
    v = it.load(p)
    if not v.fields:
        return opt_none()
    it.store(p, Seq(v.fields[1:], v.kind))
    return opt_some(v.fields[0])


def m_front(it, a, ty, callee):
    p = a[0]
    v = it.load(p)
    return opt_some(Ptr(p.cell, p.path + (0,))) if v.fields else opt_none()


def m_slice_contains(it, a, ty, callee):
    from .core import typed_eq
    xs = it.load(a[0])
    x = deref(it, a[1])
    m = re.search(r'<impl \[(.*)\]>::contains', callee, re.S)
    return b_or(*[typed_eq(it, m.group(1), e, x) for e in xs.fields])


def m_seq_eq(it, a, ty, callee):
    return it.veq(deref(it, a[0]), deref(it, a[1]))


def m_slice_len(it, a, ty, callee):
    return usize(len(it.load(a[0]).fields))


def m_slice_is_empty(it, a, ty, callee):
    return len(it.load(a[0]).fields) == 0


def m_first_last(which):
    def f(it, a, ty, callee):
        p = a[0]
        n = len(it.load(p).fields)
        if n == 0:
            return opt_none()
        base = p.win[0] if p.win else 0
        return opt_some(Ptr(p.cell, p.path + (base + (0 if which == 'first' else n - 1),)))
    return f


def m_index_usize(it, a, ty, callee):
    p, i = a
    seq = it.load(p)
    n = len(seq.fields)
    it.require(it.binop('Lt', i, usize(n)), 'panic', 'index out of bounds (len %d) in %s' % (n, callee[:60]))
    base = p.win[0] if p.win else 0
    if i.conc:
        return Ptr(p.cell, p.path + (base + i.v,))
    k = it.choose(n, [i.z() == z3.BitVecVal(j, 64) for j in range(n)])
    return Ptr(p.cell, p.path + (base + k,))


def _range_bounds(it, r, n):
    """(start, end) of a Range*/RangeTo/RangeFrom/RangeFull value over a sequence of length n (python ints)"""
    if not isinstance(r, Adt):
        if 'RangeFull' in repr(r):
            return 0, n
        raise Inconclusive('range value %r' % (r,))
    t = r.ty
    if t.endswith('RangeFull'):
        return 0, n
    def conc(x):
        if x.conc:
            return x.v
        k = it.choose(n + 1, [x.z() == z3.BitVecVal(j, x.w) for j in range(n + 1)] )
        return k
    if t.endswith('RangeToInclusive'):
        return 0, _cap(it, it.binop('Add', r.fields[0], usize(1)), n)
    if t.endswith('RangeTo'):
        return 0, _cap(it, r.fields[0], n)
    if t.endswith('RangeFrom'):
        return _cap(it, r.fields[0], n), n
    if t.endswith('RangeInclusive'):
        lo = _cap(it, r.fields[0], n)
        hi = _cap(it, it.binop('Add', r.fields[1], usize(1)), n)
        return lo, hi
    return _cap(it, r.fields[0], n), _cap(it, r.fields[1], n)


def _cap(it, x, n):
    """concretise an index that must be <= n (bounds are VCs)"""
    it.require(it.binop('Le', x, usize(n)), 'panic', 'slice index out of range (len %d)' % n)
    if x.conc:
        return x.v
    return it.choose(n + 1, [x.z() == z3.BitVecVal(j, x.w) for j in range(n + 1)])


def m_index_range(it, a, ty, callee):
    p, r = a
    seq = it.load(p)
    n = len(seq.fields)
    lo, hi = _range_bounds(it, r, n)
    it.require(lo <= hi, 'panic', 'slice index starts at %d but ends at %d' % (lo, hi))
    base = p.win[0] if p.win else 0
    return Ptr(p.cell, p.path, (base + lo, hi - lo))


def m_copy_from_slice(it, a, ty, callee):
    dst, src = a
    d = it.load(dst)
    sv = it.load(src)
    it.require(len(d.fields) == len(sv.fields), 'panic', 'copy_from_slice: length mismatch')
    it.store(dst, Seq(sv.fields, 'slice'))
    return UNIT


def m_read_be(width):
    def f(it, a, ty, callee):
        sv = it.load(a[0])
        nb = width // 8
        it.require(len(sv.fields) >= nb, 'panic', 'read_u%d: slice too short' % width)
        bs = sv.fields[:nb]
        if all(b.conc for b in bs):
            v = 0
            for b in bs:
                v = (v << 8) | b.v
            return Int(v, width)
        return Int(z3.Concat(*[b.z() for b in bs]), width)
    return f


def m_leading_zeros(it, a, ty, callee):
    x = a[0]
    w = x.w
    if x.conc:
        return Int(w - x.v.bit_length(), 32)
    z = x.z()
    r = z3.BitVecVal(w, 32)
    for i in range(w):
        r = z3.If(z3.Extract(i, i, z) == z3.BitVecVal(1, 1), z3.BitVecVal(w - 1 - i, 32), r)
    return Int(r, 32)


def m_iter_cmp(it, a, ty, callee):
    """lexicographic Iterator::cmp over integer items"""
    xs = drain(it, as_lazy(a[0]))
    ys = drain(it, as_lazy(a[1]))
    ORD = 'std::cmp::Ordering'
    for x, y in zip(xs, ys):
        x = it.load(x) if isinstance(x, Ptr) else x
        y = it.load(y) if isinstance(y, Ptr) else y
        lt = it.binop('Lt', x, y)
        if it.branch(lt):
            return Adt(ORD, 0, ())
        if it.branch(it.binop('Gt', x, y)):
            return Adt(ORD, 2, ())
    if len(xs) == len(ys):
        return Adt(ORD, 1, ())
    return Adt(ORD, 0 if len(xs) < len(ys) else 2, ())


class Blob(Model):
    """byte vector with symbolic length and irrelevant contents"""
    __slots__ = ('n',)
    fields = ()
    rust_type = 'std::vec::Vec<u8>'

    def __init__(self, n):
        self.n = n

    def __repr__(self):
        return 'Blob(%r)' % (self.n,)


def m_blob(it, a, ty, callee):
    return Blob(a[1])


def m_vec_len_any(it, a, ty, callee):
    v = deref(it, a[0])
    if isinstance(v, Blob):
        return v.n
    return usize(len(v.fields))


def m_drain(it, a, ty, callee):
    p, r = a
    v = it.load(p)
    lo, hi = _range_bounds(it, r, len(v.fields))
    it.store(p, Seq(v.fields[:lo] + v.fields[hi:], v.kind))
    return LazyIter(v.fields[lo:hi])


def m_sum(it, a, ty, callee):
    xs = drain(it, as_lazy(a[0]))
    m = re.search(r'::sum::<(\w+)>$', callee)
    from ..values import INT_TYPES
    w, sg = INT_TYPES[m.group(1)] if m and m.group(1) in INT_TYPES else (64, False)
    acc = Int(0, w, sg)
    for x in xs:
        x = it.load(x) if isinstance(x, Ptr) else x
        r = it.binop('AddWithOverflow', acc, x)
        it.require(b_not(r.fields[1]), 'panic', 'attempt to add with overflow in Iterator::sum')
        acc = r.fields[0]
    return acc


def m_position(it, a, ty, callee):
    p = a[0]
    li = as_lazy(it.load(p) if isinstance(p, Ptr) else p)
    i = 0
    while True:
        li, x = pull(it, li)
        if x is None and li.pos >= len(li.items):
            return opt_none()
        if x is None:
            continue
        if it.branch(it.call_value(a[1], [x], None)):
            return opt_some(usize(i))
        i += 1


def m_vec_remove(it, a, ty, callee):
    p, i = a
    v = it.load(p)
    n = len(v.fields)
    it.require(it.binop('Lt', i, usize(n)), 'panic', 'Vec::remove index out of bounds')
    k = i.v if i.conc else it.choose(n, [i.z() == z3.BitVecVal(j, 64) for j in range(n)])
    it.store(p, Seq(v.fields[:k] + v.fields[k + 1:], v.kind))
    return v.fields[k]


def m_vec_insert(it, a, ty, callee):
    p, i, x = a
    v = it.load(p)
    n = len(v.fields)
    it.require(it.binop('Le', i, usize(n)), 'panic', 'Vec::insert index out of bounds')
    k = i.v if i.conc else it.choose(n + 1, [i.z() == z3.BitVecVal(j, 64) for j in range(n + 1)])
    it.store(p, Seq(v.fields[:k] + (x,) + v.fields[k:], v.kind))
    return UNIT


def m_from_elem(it, a, ty, callee):
    x, n = a
    if not n.conc:
        raise Inconclusive('vec![x; n] with symbolic n')
    return Seq([x] * n.v, 'vec')


def m_map_iter(it, a, ty, callee):
    p = a[0]
    m = it.load(p)
    return LazyIter([Tup([Ptr(Cell('key', k)), Ptr(p.cell, p.path + (i,))]) for i, k in enumerate(m.keys)])


def m_map_values(it, a, ty, callee):
    p = a[0]
    m = it.load(p)
    return LazyIter([Ptr(p.cell, p.path + (i,)) for i in range(len(m.fields))])


def m_map_keys(it, a, ty, callee):
    m = it.load(a[0])
    return LazyIter([Ptr(Cell('key', k)) for k in m.keys])


def m_vec_extend(it, a, ty, callee):
    p, src = a
    v = it.load(p)
    if isinstance(src, Ptr):
        items = it.load(src).fields
    elif isinstance(src, (Seq,)):
        items = src.fields
    else:
        items = tuple(x if not isinstance(x, Ptr) else it.load(x) for x in drain(it, as_lazy(src)))
    it.store(p, Seq(v.fields + tuple(items), v.kind))
    return UNIT


def ord_cmp(it, ty, x, y):
    """-1/0/1 as `<ty as Ord>::cmp(x, y)` would answer (forks on symbolic keys)"""
    from ..values import INT_TYPES
    ty = ty.strip()
    if ty.startswith('std::cmp::Reverse<'):
        return ord_cmp(it, ty[len('std::cmp::Reverse<'):-1], y.fields[0], x.fields[0])
    if ty in INT_TYPES:
        if it.branch(it.binop('Lt', x, y)):
            return -1
        return 0 if it.branch(it.veq(x, y)) else 1
    o = it.call('<%s as std::cmp::Ord>::cmp' % ty, [_ref(x), _ref(y)], 'std::cmp::Ordering')
    return o.variant - 1


def m_sort_by_key(it, a, ty, callee):
    """stable sort (insertion sort; the key closure is interpreted, comparisons fork)"""
    from .. import mir
    p, f = a
    seq = it.load(p)
    m = re.search(r'::sort_by_key::<(.*)>$', callee, re.S)
    kty = mir.split_top(m.group(1))[0]
    items = list(seq.fields)
    keys = [it.call_value(f, [Ptr(Cell('elem', x))], kty) for x in items]
    out = []
    for x, k in zip(items, keys):
        pos = len(out)
        while pos > 0 and ord_cmp(it, kty, k, out[pos - 1][1]) < 0:
            pos -= 1
        out.insert(pos, (x, k))
    it.store(p, Seq([x for x, _ in out], 'slice') if p.win is not None else Seq([x for x, _ in out], seq.kind))
    return UNIT


def m_sort_by(it, a, ty, callee):
    """sort with a comparator closure (insertion sort; for sort_unstable_by elements comparing Equal keep
    their order, which is one of the orders the unstable sort may produce)"""
    p, f = a
    seq = it.load(p)
    out = []
    for x in seq.fields:
        pos = len(out)
        while pos > 0:
            o = it.call_value(f, [Ptr(Cell('a', x)), Ptr(Cell('b', out[pos - 1]))], 'std::cmp::Ordering')
            if o.variant != 0:
                break
            pos -= 1
        out.insert(pos, x)
    it.store(p, Seq(out, 'slice') if p.win is not None else Seq(out, seq.kind))
    return UNIT


def m_flat_map(it, a, ty, callee):
    out = []
    for x in drain(it, as_lazy(a[0])):
        sub = it.call_value(a[1], [x], None)
        if not isinstance(sub, IterModel):
            sub = m_into_iter(it, [sub], None, callee)
        out.extend(drain(it, as_lazy(sub)))
    return LazyIter(out)


def m_binary_search_by(it, a, ty, callee):
    """std's algorithm transcribed (library/core/src/slice/mod.rs, the branch-free version used since Rust 1.82),
    not its contract: on unsorted input it behaves like std does"""
    from ..values import res_ok, res_err
    p, f = a
    items = slice_items(it, p)
    size = len(items)
    if size == 0:
        return res_err(usize(0))
    base = 0
    while size > 1:
        half = size // 2
        mid = base + half
        c = it.call_value(f, [items[mid]], 'std::cmp::Ordering')
        base = base if c.variant == 2 else mid
        size -= half
    c = it.call_value(f, [items[base]], 'std::cmp::Ordering')
    if c.variant == 1:
        return res_ok(usize(base))
    return res_err(usize(base + (1 if c.variant == 0 else 0)))


def m_retain(it, a, ty, callee):
    p, f = a
    v = it.load(p)
    keep = []
    for x in v.fields:
        c = Cell('elem', x)
        if it.branch(it.call_value(f, [Ptr(c)], None)):
            keep.append(c.val)
    it.store(p, Seq(keep, v.kind))
    return UNIT


def m_peekable(it, a, ty, callee):
    return as_lazy(a[0])


def m_peek(it, a, ty, callee):
    li = as_lazy(it.load(a[0]))
    _, x = pull(it, li)
    while x is None and _.pos < len(_.items):
        _, x = pull(it, _)
    if x is None:
        return opt_none()
    return opt_some(Ptr(Cell('peeked', x)))


def m_chunks(it, a, ty, callee):
    p, n = a
    if not n.conc or n.v == 0:
        raise Inconclusive('chunks(symbolic or zero)')
    total = len(it.load(p).fields)
    base = p.win[0] if p.win else 0
    return LazyIter([Ptr(p.cell, p.path, (base + i, min(n.v, total - i))) for i in range(0, total, n.v)])


def m_sort_plain(it, a, ty, callee):
    """slice::sort / sort_unstable for integer elements (insertion sort, comparisons fork on symbolic values)"""
    p = a[0]
    seq = it.load(p)
    m = re.search(r'<impl \[(.*)\]>::sort', callee, re.S)
    ety = m.group(1) if m else 'usize'
    out = []
    for x in seq.fields:
        pos = len(out)
        while pos > 0 and ord_cmp(it, ety, x, out[pos - 1]) < 0:
            pos -= 1
        out.insert(pos, x)
    it.store(p, Seq(out, 'slice') if p.win is not None else Seq(out, seq.kind))
    return UNIT


def m_chain(it, a, ty, callee):
    xs = drain(it, as_lazy(a[0]))
    second = a[1]
    if not isinstance(second, IterModel):
        second = m_into_iter(it, [second], None, callee)
    ys = drain(it, as_lazy(second))
    return LazyIter(xs + ys)


def m_zip(it, a, ty, callee):
    """Iterator::zip: eager on both sides (the closures of the adaptor stages are pure in the code under test)"""
    from ..values import Tup
    xs = drain(it, as_lazy(a[0]))
    second = a[1]
    if not isinstance(second, IterModel):
        second = m_into_iter(it, [second], None, callee)
    ys = drain(it, as_lazy(second))
    return LazyIter([Tup([x, y]) for x, y in zip(xs, ys)])


def m_vec_truncate(it, a, ty, callee):
    p, n = a
    v = it.load(p)
    if n.conc:
        k = min(n.v, len(v.fields))
    else:
        # fork on the (few) feasible lengths
        L = len(v.fields)
        conds = [n.z() == z3.BitVecVal(j, n.w) for j in range(L)] + [z3.UGE(n.z(), z3.BitVecVal(L, n.w))]
        k = it.choose(L + 1, conds)
    it.store(p, Seq(v.fields[:k], v.kind))
    return UNIT


def m_slice_swap(it, a, ty, callee):
    p, i, j = a
    v = it.load(p)
    n = len(v.fields)
    it.require(b_and(it.binop('Lt', i, usize(n)), it.binop('Lt', j, usize(n))), 'panic', 'slice::swap index out of bounds')
    if not (i.conc and j.conc):
        raise Inconclusive('slice::swap with symbolic indices')
    f = list(v.fields)
    f[i.v], f[j.v] = f[j.v], f[i.v]
    it.store(p, Seq(f, 'slice' if p.win is not None else v.kind))
    return UNIT


def m_slice_reverse(it, a, ty, callee):
    p = a[0]
    v = it.load(p)
    it.store(p, Seq(tuple(reversed(v.fields)), 'slice' if p.win is not None else v.kind))
    return UNIT


def m_swap_remove(it, a, ty, callee):
    p, i = a
    v = it.load(p)
    n = len(v.fields)
    it.require(it.binop('Lt', i, usize(n)), 'panic', 'Vec::swap_remove index out of bounds')
    k = i.v if i.conc else it.choose(n, [i.z() == z3.BitVecVal(j, 64) for j in range(n)])
    f = list(v.fields)
    out = f[k]
    f[k] = f[-1]
    f.pop()
    it.store(p, Seq(f, v.kind))
    return out


def m_vec_clear(it, a, ty, callee):
    v = it.load(a[0])
    it.store(a[0], Seq((), v.kind))
    return UNIT


def install(it):
    A = it.add_model
    _IT[0] = it
    A(r'<std::collections::VecDeque<.*> as std::convert::From<std::vec::Vec<.*>>>::from', lambda it, a, ty, c: a[0])
    A(r'<std::vec::Vec<.*> as std::convert::From<std::collections::VecDeque<.*>>>::from', lambda it, a, ty, c: a[0])
    A(r'std::(vec::Vec|collections::VecDeque)::<.*>::clear', m_vec_clear)
    A(r'(?:core|std)::slice::<impl \[.*\]>::reverse', m_slice_reverse)
    A(r'(?:core|std)::slice::<impl \[.*\]>::swap', m_slice_swap)
    A(r'std::(vec::Vec|collections::VecDeque)::<.*>::retain(_mut)?::<.*>', m_retain)
    A(r'std::(vec::Vec|collections::VecDeque)::<.*>::truncate', m_vec_truncate)
    A(r'(?:core|std)::slice::<impl \[.*\]>::sort_by_key::<.*>', m_sort_by_key)
    A(r'(?:core|std)::slice::<impl \[(?:u|i)(?:8|16|32|64|128|size)\]>::sort(_unstable)?', m_sort_plain)
    A(r'(?:core|std)::slice::<impl \[.*\]>::chunks', m_chunks)
    A(r"(?:core|std)::slice::<impl \[.*\]>::binary_search_by::<.*>", m_binary_search_by)
    A(r'(?:core|std)::slice::<impl \[.*\]>::sort(_unstable)?_by::<.*>', m_sort_by)
    A(r'std::cmp::Reverse', lambda it, a, ty, c: Adt('std::cmp::Reverse', 0, [a[0]]))
    A(r'<std::vec::Vec<.*> as std::convert::AsRef<\[.*\]>>::as_ref', m_vec_deref)
    A(r'std::vec::Vec::<.*>::extend_from_slice', m_vec_extend)
    A(r'<std::vec::Vec<.*> as std::iter::Extend<.*>>::extend::<.*>', m_vec_extend)
    A(r'<.* as std::iter::Iterator>::position::<.*>', m_position)
    A(r'std::vec::Vec::<.*>::remove', m_vec_remove)
    A(r'std::vec::Vec::<.*>::swap_remove', m_swap_remove)
    A(r'std::vec::Vec::<.*>::insert', m_vec_insert)
    A(r'(?:\w+::)*verif_rt::Nondet::blob', m_blob)
    A(r'std::vec::Vec::<u8>::len', m_vec_len_any)
    A(r'std::collections::VecDeque::<.*>::drain::<.*>', m_drain)
    A(r'std::vec::Vec::<.*>::drain::<.*>', m_drain)
    A(r'<.* as std::iter::Iterator>::sum::<.*>', m_sum)
    A(r'std::ops::RangeInclusive::<.*>::new', lambda it, a, ty, c: Adt('std::ops::RangeInclusive', 0, [a[0], a[1], False]))
    A(r'std::vec::from_elem::<.*>', m_from_elem)
    A(r'<(\[.*\]|std::vec::Vec<.*>) as std::ops::Index(Mut)?<std::ops::Range\w*(<usize>)?>>::index(_mut)?', m_index_range)
    A(r'core::slice::<impl \[.*\]>::copy_from_slice', m_copy_from_slice)
    A(r'<uint::byteorder::BigEndian as uint::byteorder::ByteOrder>::read_u64', m_read_be(64))
    A(r'core::num::<impl u\d+>::leading_zeros', m_leading_zeros)
    A(r'<.* as std::iter::Iterator>::cmp::<.*>', m_iter_cmp)
    A(r'std::collections::(HashMap|BTreeMap)::<.*>::iter(_mut)?', m_map_iter)
    A(r'std::collections::(HashMap|BTreeMap)::<.*>::values(_mut)?', m_map_values)
    A(r'std::collections::(HashMap|BTreeMap)::<.*>::keys', m_map_keys)
    A(r'<std::vec::Vec<.*> as std::ops::Deref(Mut)?>::deref(_mut)?', m_vec_deref)
    A(r'std::vec::Vec::<.*>::(as_slice|as_mut_slice)', m_vec_deref)
    A(r'core::slice::<impl \[.*\]>::iter(_mut)?', m_slice_iter)
    A(r'std::collections::VecDeque::<.*>::iter(_mut)?', m_vec_iter)
    A(r'<.* as std::iter::IntoIterator>::into_iter', m_into_iter)
    for k in ('map', 'filter', 'filter_map', 'copied', 'cloned', 'enumerate', 'take'):
        A(r'<.* as std::iter::Iterator>::%s(::<.*>)?' % k, m_stage(k))
    A(r'<.* as std::iter::Iterator>::rev', m_rev)
    A(r'<.* as std::iter::Iterator>::chain::<.*>', m_chain)
    A(r'<.* as std::iter::Iterator>::zip::<.*>', m_zip)
    A(r'<.* as std::iter::Iterator>::peekable', m_peekable)
    A(r'std::iter::Peekable::<.*>::peek', m_peek)
    A(r'smallvec::SmallVec::<.*>::(new|with_capacity)', lambda it, a, ty, c: Seq((), 'vec'))
    A(r'<smallvec::SmallVec<.*> as std::iter::FromIterator<.*>>::from_iter::<.*>', lambda it, a, ty, c: Seq(drain(it, as_lazy(a[0]) if isinstance(a[0], (IterModel, Adt)) else m_into_iter(it, [a[0]], None, c)), 'vec'))
    A(r'<smallvec::SmallVec<.*> as std::ops::Deref(Mut)?>::deref(_mut)?', m_vec_deref)
    A(r'smallvec::SmallVec::<.*>::(len)', lambda it, a, ty, c: usize(len(it.load(a[0]).fields)))
    A(r'smallvec::SmallVec::<.*>::push', m_vec_push)
    A(r'<.* as std::iter::Iterator>::flat_map::<.*>', m_flat_map)
    A(r'<.* as std::iter::Iterator>::next', m_next)
    A(r'<.* as std::iter::Iterator>::collect::<.*>', m_collect)
    A(r'<.* as std::iter::Iterator>::last', m_last)
    A(r'<.* as std::iter::Iterator>::count', m_count)
    A(r'<.* as std::iter::Iterator>::any::<.*>', m_any_all('any'))
    A(r'<.* as std::iter::Iterator>::all::<.*>', m_any_all('all'))
    A(r'<.* as std::iter::Iterator>::find_map::<.*>', m_find_map)
    A(r'<.* as std::iter::Iterator>::find::<.*>', m_find)
    A(r'<.* as std::iter::Iterator>::nth', m_nth)
    A(r'<.* as std::iter::Iterator>::take_while::<.*>', m_take_while)
    A(r'<.* as std::iter::Iterator>::for_each::<.*>', m_for_each)
    A(r'<.* as std::iter::Iterator>::min', m_min_max('min'))
    A(r'<.* as std::iter::Iterator>::max', m_min_max('max'))
    A(r'std::vec::Vec::<.*>::push', m_vec_push)
    A(r'std::collections::VecDeque::<.*>::push_back', m_vec_push)
    A(r'std::vec::Vec::<.*>::pop', m_vec_pop)
    A(r'std::collections::VecDeque::<.*>::pop_back', m_vec_pop)
    A(r'std::collections::VecDeque::<.*>::pop_front', m_pop_front)
    A(r'std::collections::VecDeque::<.*>::front', m_front)
    A(r'core::slice::<impl \[.*\]>::contains', m_slice_contains)
    A(r'core::slice::<impl \[.*\]>::len', m_slice_len)
    A(r'core::slice::<impl \[.*\]>::is_empty', m_slice_is_empty)
    A(r'core::slice::<impl \[.*\]>::first', m_first_last('first'))
    A(r'core::slice::<impl \[.*\]>::last', m_first_last('last'))
    A(r'<std::vec::Vec<.*> as std::ops::Index(Mut)?<usize>>::index(_mut)?', m_index_usize)
    A(r'<\[.*\] as std::ops::Index(Mut)?<usize>>::index(_mut)?', m_index_usize)
