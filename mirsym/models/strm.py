"""`str` / `String` as byte sequences (UTF-8 validity is not modelled: harness strings are ASCII literals)."""
import re

from ..interp import Inconclusive, b_not, b_and
from ..values import Int, UNIT, Adt, Seq, Cell, Ptr, usize, opt_none, opt_some, res_ok, res_err
from .bytesm import as_bytes, m_bytes_eq


def m_identity(it, a, ty, callee):
    return a[0]


def m_len(it, a, ty, callee):
    return usize(len(as_bytes(it, a[0])))


def m_is_empty(it, a, ty, callee):
    return len(as_bytes(it, a[0])) == 0


def m_to_owned(it, a, ty, callee):
    return Seq(as_bytes(it, a[0]), 'vec')


def m_string_deref(it, a, ty, callee):
    p = a[0]
    v = it.load(p)
    return Ptr(p.cell, p.path, (0, len(v.fields)))


def m_from_utf8(it, a, ty, callee):
    bs = as_bytes(it, a[0])
    # ASCII only: anything with the high bit set is reported as invalid (stated restriction of the model)
    ok = b_and(*[it.binop('Lt', b, Int(0x80, 8)) for b in bs])
    if it.branch(ok):
        return res_ok(a[0])
    return res_err(Adt('std::str::Utf8Error', 0, ()))


def install(it):
    A = it.add_model
    A(r'<str as std::convert::AsRef<\[u8\]>>::as_ref', m_identity)
    A(r'<str as std::convert::AsRef<str>>::as_ref', m_identity)
    A(r'core::str::<impl str>::as_bytes', m_identity)
    A(r'core::str::<impl str>::len', m_len)
    A(r'core::str::<impl str>::is_empty', m_is_empty)
    A(r'<str as std::cmp::PartialEq>::(eq|ne)', m_bytes_eq)
    A(r'<&str as std::cmp::PartialEq(<.*>)?>::(eq|ne)', m_bytes_eq)
    A(r'<std::string::String as std::cmp::PartialEq(<.*>)?>::(eq|ne)', m_bytes_eq)
    A(r'<str as std::borrow::ToOwned>::to_owned', m_to_owned)
    A(r'<str as std::string::ToString>::to_string', m_to_owned)
    A(r'<std::string::String as std::convert::From<&str>>::from', m_to_owned)
    A(r'<std::string::String as std::ops::Deref>::deref', m_string_deref)
    A(r'std::string::String::new', lambda it, a, ty, c: Seq((), 'vec'))
    A(r'std::string::String::(len)', lambda it, a, ty, c: usize(len(it.load(a[0]).fields)))
    A(r'std::string::String::(is_empty)', lambda it, a, ty, c: len(it.load(a[0]).fields) == 0)
    A(r'std::string::String::as_str', m_string_deref)
    A(r'std::string::String::as_bytes', m_string_deref)
    A(r'std::str::from_utf8', m_from_utf8)
    A(r'<std::sync::Arc<str> as std::convert::From<&str>>::from', lambda it, a, ty, c: a[0])
    A(r'<std::sync::Arc<str> as std::convert::From<std::string::String>>::from', lambda it, a, ty, c: Ptr(Cell('arcstr', a[0]), (), (0, len(a[0].fields))))
    A(r'<std::sync::Arc<str> as std::ops::Deref>::deref', lambda it, a, ty, c: it.load(a[0]) if isinstance(it.load(a[0]), Ptr) else a[0])
