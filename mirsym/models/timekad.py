"""Time (Instant/Duration on one symbolic-free model clock) and small Kademlia-related library stubs."""
import re
import z3

from ..interp import Inconclusive, Violation, b_not, b_and, b_or
from ..values import Int, UNIT, Adt, Tup, Seq, Cell, Ptr, Extern, Model, usize, opt_none, opt_some
from .core import Atom, deref

NS = 128          # durations / instants are u128 nanoseconds in the model
EPOCH = 10 ** 15  # model "now" unless a harness advances it


def dur(ns):
    return Int(ns, NS, False)


def m_dur_from(mult):
    def f(it, a, ty, callee):
        x = a[0]
        if x.conc:
            return dur(x.v * mult)
        return Int(z3.ZeroExt(NS - x.w, x.z()) * z3.BitVecVal(mult, NS), NS, False)
    return f


def m_now(it, a, ty, callee):
    return dur((getattr(it, 'clock_ns', None) or EPOCH))


def m_elapsed(it, a, ty, callee):
    t = deref(it, a[0])
    now = dur((getattr(it, 'clock_ns', None) or EPOCH))
    return it.binop('Sub', now, t) if it.branch(it.binop('Le', t, now)) else dur(0)


def m_sub(it, a, ty, callee):
    return it.binop('Sub', a[0], a[1])


def m_add(it, a, ty, callee):
    return it.binop('Add', a[0], a[1])


def m_cmp(op):
    def f(it, a, ty, callee):
        return it.binop(op, deref(it, a[0]), deref(it, a[1]))
    return f


def m_array_from(it, a, ty, callee):
    return a[0]


def m_array_as_slice(it, a, ty, callee):
    p = a[0]
    v = it.load(p)
    return Ptr(p.cell, p.path, (0, len(v.fields)))


def m_opaque_bytes(tag):
    def f(it, a, ty, callee):
        return Atom('bytes', it.sym(tag, 32, internal=True))
    return f


def install(it):
    A = it.add_model
    A(r'std::time::Duration::from_secs', m_dur_from(10 ** 9))
    A(r'std::time::Duration::from_millis', m_dur_from(10 ** 6))
    A(r'std::time::Duration::from_nanos', m_dur_from(1))
    A(r'std::time::Instant::now', m_now)
    A(r'std::time::Instant::elapsed', m_elapsed)
    A(r'<std::time::Instant as std::ops::Sub<std::time::Duration>>::sub', m_sub)
    A(r'<std::time::Instant as std::ops::Add<std::time::Duration>>::add', m_add)
    A(r'<std::time::Duration as std::cmp::PartialOrd>::gt', m_cmp('Gt'))
    A(r'<std::time::Duration as std::cmp::PartialOrd>::lt', m_cmp('Lt'))
    A(r'<std::time::Duration as std::cmp::PartialOrd>::ge', m_cmp('Ge'))
    A(r'<std::time::Duration as std::cmp::PartialOrd>::le', m_cmp('Le'))
    A(r'<std::time::Instant as std::cmp::PartialOrd>::(gt)', m_cmp('Gt'))
    A(r'<std::time::Instant as std::cmp::PartialOrd>::(lt)', m_cmp('Lt'))
    A(r'<std::time::Instant as std::cmp::PartialOrd>::(ge)', m_cmp('Ge'))
    A(r'<std::time::Instant as std::cmp::PartialOrd>::(le)', m_cmp('Le'))
    A(r'<sha2::digest::hybrid_array::Array<.*> as std::convert::From<\[u8; \d+\]>>::from', m_array_from)
    A(r'sha2::digest::hybrid_array::Array::<.*>::as_slice', m_array_as_slice)
    A(r'protocol::libp2p::kademlia::message::KademliaMessage::find_node::<.*>', m_opaque_bytes('find_node_msg'))
    A(r'protocol::libp2p::kademlia::message::KademliaMessage::get_record', m_opaque_bytes('get_record_msg'))
