"""Time (Instant/Duration on one symbolic-free model clock) and small Kademlia-related library stubs."""
import re
import z3

from ..interp import Inconclusive, Violation, b_not, b_and, b_or
from ..values import Int, UNIT, Adt, Tup, Seq, Cell, Ptr, Extern, Model, usize, opt_none, opt_some
from .core import Atom, deref

NS = 128          # durations / instants are u128 nanoseconds in the model
EPOCH = 10 ** 15  # model "now" unless a harness advances it


def dur(ns):
    return Int(ns, NS, False)


def m_dur_from(mult):
    def f(it, a, ty, callee):
        x = a[0]
        if x.conc:
            return dur(x.v * mult)
        return Int(z3.ZeroExt(NS - x.w, x.z()) * z3.BitVecVal(mult, NS), NS, False)
    return f


def m_now(it, a, ty, callee):
    return dur((getattr(it, 'clock_ns', None) or EPOCH))


def m_elapsed(it, a, ty, callee):
    t = deref(it, a[0])
    now = dur((getattr(it, 'clock_ns', None) or EPOCH))
    return it.binop('Sub', now, t) if it.branch(it.binop('Le', t, now)) else dur(0)


# ---- litep2p's verif_clock (feature `verif`): a harness-driven millisecond clock. The module is environment code like
# `Nondet`: natively its real body runs (a static atomic), here it is a per-path counter.
class VSleep(Model):
    __slots__ = ('deadline',)
    fields = ()

    def __init__(self, deadline):
        self.deadline = deadline


def _vnow(it):
    return it.path_state.get('vclock_ms', 0)


def m_vclock_now_ms(it, a, ty, callee):
    return Int(_vnow(it), 64, False)


def m_vclock_advance(it, a, ty, callee):
    if not a[0].conc:
        raise Inconclusive('verif_clock::advance with a symbolic amount')
    it.path_state['vclock_ms'] = _vnow(it) + a[0].v
    return UNIT


def m_vinstant_now(it, a, ty, callee):
    return Adt('verif_clock::Instant', 0, [Int(_vnow(it), 64, False)])


def m_vinstant_elapsed(it, a, ty, callee):
    t = deref(it, a[0]).fields[0]
    return dur(max(0, _vnow(it) - t.v) * 10 ** 6)


def m_vsleep(it, a, ty, callee):
    d = a[0]
    if not d.conc:
        raise Inconclusive('verif_clock::sleep with a symbolic duration')
    return VSleep(_vnow(it) + d.v // 10 ** 6)


def m_vsleep_poll(it, a, ty, callee):
    p = a[0].fields[0] if isinstance(a[0], Adt) and a[0].ty == 'std::pin::Pin' else a[0]
    s = it.load(p)
    return Adt('std::task::Poll', 0, [UNIT]) if _vnow(it) >= s.deadline else Adt('std::task::Poll', 1, ())


def m_dur_saturating_sub(it, a, ty, callee):
    x, y = a
    if x.conc and y.conc:
        return dur(max(0, x.v - y.v))
    return it.binop('Sub', x, y) if it.branch(it.binop('Ge', x, y)) else dur(0)


def m_sub(it, a, ty, callee):
    return it.binop('Sub', a[0], a[1])


def m_add(it, a, ty, callee):
    return it.binop('Add', a[0], a[1])


def m_sub_assign(it, a, ty, callee):
    it.store(a[0], it.binop('Sub', it.load(a[0]), a[1]))
    return UNIT


def m_add_assign(it, a, ty, callee):
    it.store(a[0], it.binop('Add', it.load(a[0]), a[1]))
    return UNIT


def m_cmp(op):
    def f(it, a, ty, callee):
        return it.binop(op, deref(it, a[0]), deref(it, a[1]))
    return f


def m_array_from(it, a, ty, callee):
    return a[0]


def m_array_as_slice(it, a, ty, callee):
    p = a[0]
    v = it.load(p)
    return Ptr(p.cell, p.path, (0, len(v.fields)))


def m_opaque_bytes(tag):
    """Kademlia request builders: an opaque byte string for the query-engine units (whose keys are symbolic and whose
    message contents are irrelevant); units that are about the messages themselves set `real_kad_messages` and get the
    real encoder (prost-generated code over the prost runtime model)"""
    def f(it, a, ty, callee):
        if int(it.params.get('real_kad_messages', 0)) == 1:
            from .. import mir
            name = it.resolve(mir.strip_generics(callee))
            if name is None:
                raise Inconclusive('cannot resolve ' + callee)
            return it.call_body(it.bodies[name], list(a))
        return Atom('bytes', it.sym(tag, 32, internal=True))
    return f


_SHA_TABLE = {}


def _peer_sha_table():
    """z3 array v -> SHA-256 of the harness peer id whose identity digest starts with byte v (exact, all 256 ids)"""
    if 'arr' not in _SHA_TABLE:
        import hashlib
        arr = z3.K(z3.BitVecSort(8), z3.BitVecVal(0, 256))
        for v in range(256):
            h = hashlib.sha256(bytes([0, 32, v] + [0] * 31)).digest()
            arr = z3.Store(arr, z3.BitVecVal(v, 8), z3.BitVecVal(int.from_bytes(h, 'big'), 256))
        _SHA_TABLE['arr'] = arr
    return _SHA_TABLE['arr']


def m_sha256(it, a, ty, callee):
    import hashlib
    data = a[0]
    while isinstance(data, Ptr):
        data = it.load(data)
    bs = data.fields
    if all(b.conc for b in bs):
        h = hashlib.sha256(bytes(b.v for b in bs)).digest()
        return Seq([Int(x, 8) for x in h], 'array')
    sym = [i for i, b in enumerate(bs) if not b.conc]
    if len(bs) == 34 and sym == [2] and bs[0].v == 0 and bs[1].v == 32 and all(b.v == 0 for b in bs[3:]):
        word = z3.Select(_peer_sha_table(), bs[2].z())
        return Seq([Int(z3.Extract(255 - 8 * i, 248 - 8 * i, word), 8) for i in range(32)], 'array')
    raise Inconclusive('SHA-256 of a symbolic byte string (only concrete inputs and harness peer ids are modelled)')


def install(it):
    A = it.add_model
    A(r'<sha2::Sha256 as sha2::Digest>::digest::<.*>', m_sha256)
    from .core import m_eq, m_ne
    A(r'<sha2::digest::hybrid_array::Array<u8, .*> as std::cmp::PartialEq>::eq', m_eq)
    A(r'<sha2::digest::hybrid_array::Array<u8, .*> as std::cmp::PartialEq>::ne', m_ne)
    A(r'verif_clock::now_ms', m_vclock_now_ms)
    A(r'verif_clock::advance', m_vclock_advance)
    A(r'verif_clock::Instant::now', m_vinstant_now)
    A(r'verif_clock::Instant::elapsed', m_vinstant_elapsed)
    A(r'verif_clock::sleep', m_vsleep)
    A(r'<verif_clock::Sleep as (?:std::future|futures)::Future>::poll', m_vsleep_poll)
    A(r'std::time::Duration::saturating_sub', m_dur_saturating_sub)
    A(r'std::time::Duration::from_secs', m_dur_from(10 ** 9))
    A(r'std::time::Duration::from_millis', m_dur_from(10 ** 6))
    A(r'std::time::Duration::from_nanos', m_dur_from(1))
    A(r'std::time::Instant::now', m_now)
    A(r'std::time::Instant::elapsed', m_elapsed)
    A(r'<std::time::Instant as std::ops::Sub<std::time::Duration>>::sub', m_sub)
    A(r'<std::time::Duration as std::ops::Add>::add', m_add)
    A(r'<std::time::Duration as std::ops::Sub>::sub', m_sub)
    A(r'<std::time::Instant as std::ops::SubAssign<std::time::Duration>>::sub_assign', m_sub_assign)
    A(r'<std::time::Instant as std::ops::AddAssign<std::time::Duration>>::add_assign', m_add_assign)
    A(r'<std::time::Instant as std::ops::Add<std::time::Duration>>::add', m_add)
    A(r'<std::time::Duration as std::cmp::PartialOrd>::gt', m_cmp('Gt'))
    A(r'<std::time::Duration as std::cmp::PartialOrd>::lt', m_cmp('Lt'))
    A(r'<std::time::Duration as std::cmp::PartialOrd>::ge', m_cmp('Ge'))
    A(r'<std::time::Duration as std::cmp::PartialOrd>::le', m_cmp('Le'))
    A(r'<std::time::Instant as std::cmp::PartialOrd>::(gt)', m_cmp('Gt'))
    A(r'<std::time::Instant as std::cmp::PartialOrd>::(lt)', m_cmp('Lt'))
    A(r'<std::time::Instant as std::cmp::PartialOrd>::(ge)', m_cmp('Ge'))
    A(r'<std::time::Instant as std::cmp::PartialOrd>::(le)', m_cmp('Le'))
    A(r'<sha2::digest::hybrid_array::Array<.*> as std::convert::From<\[u8; \d+\]>>::from', m_array_from)
    A(r'sha2::digest::hybrid_array::Array::<.*>::as_slice', m_array_as_slice)
    A(r'protocol::libp2p::kademlia::message::KademliaMessage::find_node::<.*>', m_opaque_bytes('find_node_msg'))
    A(r'protocol::libp2p::kademlia::message::KademliaMessage::get_record', m_opaque_bytes('get_record_msg'))
    A(r'protocol::libp2p::kademlia::message::KademliaMessage::(get_providers_request|put_value|add_provider)', m_opaque_bytes('kad_msg'))
