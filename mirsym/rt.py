"""Interception of the harness runtime (`verif_rt` module of the Rust harness crate)."""
import z3

from .interp import Violation, Infeasible, Inconclusive
from .values import Int, UNIT, Adt, Ptr
from .models.core import Atom
from .models.maddr import peer_mh


def _name(it, p):
    """&'static str argument -> python str"""
    if isinstance(p, Ptr):
        seq = it.load(p)
        return bytes(x.v for x in seq.fields).decode()
    return str(p)


def _next_concrete(it):
    v = it.concrete[it.cpos] if it.cpos < len(it.concrete) else 0
    it.cpos += 1
    return v


def nd_int(width):
    def f(it, a, ty, callee):
        if it.concrete is not None:
            return Int(_next_concrete(it), width, False)
        return Int(it.sym(_name(it, a[1]), width), width, False)
    return f


def nd_i32(it, a, ty, callee):
    if it.concrete is not None:
        return Int(_next_concrete(it), 32, True)
    return Int(it.sym(_name(it, a[1]), 32), 32, True)


def nd_bool(it, a, ty, callee):
    if it.concrete is not None:
        return _next_concrete(it) & 1 == 1
    k = it.choose(2)
    it.nondet_log.append((_name(it, a[1]), k))
    return k == 1


def nd_choose(it, a, ty, callee):
    n = a[2]
    assert n.conc, 'choose(n) needs a concrete n'
    if it.concrete is not None:
        return Int(_next_concrete(it) % n.v, 64, False)
    k = it.choose(n.v)
    it.nondet_log.append((_name(it, a[1]), k))
    return Int(k, 64, False)


def nd_multiaddr(it, a, ty, callee):
    return Atom('multiaddr', it.sym(_name(it, a[1]), 16))


def nd_peer_id(it, a, ty, callee):
    if it.concrete is not None:
        return Adt('peer_id::PeerId', 0, [peer_mh(_next_concrete(it) & 0xff)])
    return Adt('peer_id::PeerId', 0, [peer_mh(Int(it.sym(_name(it, a[1]), 8), 8))])


def nd_peer_id_fixed(it, a, ty, callee):
    v = a[1]
    if not v.conc:
        raise Inconclusive('peer_id_fixed needs a concrete argument')
    return Adt('peer_id::PeerId', 0, [peer_mh(v.v)])


def nd_pattern(it, a, ty, callee):
    n = a[1]
    if not n.conc:
        raise Inconclusive('pattern(len) needs a concrete length')
    from .values import Seq
    pat = _PATTERNS.get(n.v)
    if pat is None:
        pat = _PATTERNS[n.v] = tuple(Int(i % 251, 8) for i in range(n.v))     # Int values are immutable: shared between paths
    return Seq(pat, 'vec')


_PATTERNS = {}


def _unused():
    pass


def nd_cid(it, a, ty, callee):
    if it.concrete is not None:
        return Atom('cid', _next_concrete(it) & 0xff)
    return Atom('cid', it.sym(_name(it, a[1]), 8))


def rt_assume(it, a, ty, callee):
    it.assume(a[0])
    return UNIT


def rt_check(it, a, ty, callee):
    name = _name(it, a[0])
    it.require(a[1], 'check', name)
    return UNIT


def rt_cover(it, a, ty, callee):
    name = _name(it, a[0])
    it.trace.append('COVER ' + name)
    it.cover_hits[name] = it.cover_hits.get(name, 0) + 1
    return UNIT


def rt_observe(it, a, ty, callee):
    v = a[1]
    it.trace.append('OBS %s %s' % (_name(it, a[0]), v.v if v.conc else '?'))
    return UNIT


def rt_param(it, a, ty, callee):
    name = _name(it, a[0])
    params = getattr(it, 'params', {})
    return Int(params[name], 64, False) if name in params else a[1]


def install(it):
    A = it.add_model
    A(r'(?:\w+::)*verif_rt::param', rt_param)
    A(r'(?:\w+::)*verif_rt::Nondet::u64', nd_int(64))
    A(r'(?:\w+::)*verif_rt::Nondet::usize', nd_int(64))
    A(r'(?:\w+::)*verif_rt::Nondet::u16', nd_int(16))
    A(r'(?:\w+::)*verif_rt::Nondet::u8', nd_int(8))
    A(r'(?:\w+::)*verif_rt::Nondet::i32', nd_i32)
    A(r'(?:\w+::)*verif_rt::Nondet::bool', nd_bool)
    A(r'(?:\w+::)*verif_rt::Nondet::choose', nd_choose)
    A(r'(?:\w+::)*verif_rt::Nondet::multiaddr', nd_multiaddr)
    A(r'(?:\w+::)*verif_rt::Nondet::peer_id', nd_peer_id)
    A(r'(?:\w+::)*verif_rt::Nondet::cid', nd_cid)
    A(r'(?:\w+::)*verif_rt::Nondet::pattern', nd_pattern)
    A(r'(?:\w+::)*verif_rt::Nondet::peer_id_fixed', nd_peer_id_fixed)
    A(r'(?:\w+::)*verif_rt::assume', rt_assume)
    A(r'(?:\w+::)*verif_rt::check', rt_check)
    A(r'(?:\w+::)*verif_rt::cover', rt_cover)
    A(r'(?:\w+::)*verif_rt::observe', rt_observe)
