"""Value domain of the symbolic interpreter. All values are immutable."""
import z3

INT_TYPES = {'u8': (8, False), 'u16': (16, False), 'u32': (32, False), 'u64': (64, False), 'u128': (128, False),
             'usize': (64, False), 'i8': (8, True), 'i16': (16, True), 'i32': (32, True), 'i64': (64, True),
             'i128': (128, True), 'isize': (64, True), 'char': (32, False)}


class Int:
    """machine integer: w bits, signedness, value = python int in [0, 2^w) or z3 BitVec(w)"""
    __slots__ = ('w', 's', 'v')

    def __init__(self, v, w, s=False):
        self.w = w
        self.s = s
        if isinstance(v, int):
            v &= (1 << w) - 1
        self.v = v

    @property
    def conc(self):
        return isinstance(self.v, int)

    def z(self):
        return z3.BitVecVal(self.v, self.w) if isinstance(self.v, int) else self.v

    def sval(self):
        """concrete value as signed/unsigned python int"""
        v = self.v
        if self.s and v >> (self.w - 1):
            v -= 1 << self.w
        return v

    def __repr__(self):
        if self.conc:
            return '%d%s%d' % (self.sval(), 'i' if self.s else 'u', self.w)
        return '<%s:%s%d>' % (self.v, 'i' if self.s else 'u', self.w)


def usize(v):
    return Int(v, 64, False)


class Unit:
    __slots__ = ()

    def __repr__(self):
        return '()'


UNIT = Unit()


class Adt:
    __slots__ = ('ty', 'variant', 'fields')

    def __init__(self, ty, variant, fields=()):
        self.ty = ty
        self.variant = variant
        self.fields = tuple(fields)

    def with_field(self, i, v):
        f = list(self.fields)
        f[i] = v
        return Adt(self.ty, self.variant, f)

    def __repr__(self):
        return '%s#%s%s' % (self.ty.split('::')[-1], self.variant, list(self.fields))


def Tup(fields):
    return Adt('()', 0, fields)


def opt_none():
    return Adt('std::option::Option', 0)


def opt_some(v):
    return Adt('std::option::Option', 1, (v,))


def res_ok(v):
    return Adt('std::result::Result', 0, (v,))


def res_err(v):
    return Adt('std::result::Result', 1, (v,))


class Seq:
    """arrays, Vec<T>, VecDeque<T>, slices' backing store: immutable sequence"""
    __slots__ = ('fields', 'kind')

    def __init__(self, elems=(), kind='seq'):
        self.fields = tuple(elems)
        self.kind = kind

    def with_field(self, i, v):
        f = list(self.fields)
        f[i] = v
        return Seq(f, self.kind)

    def __len__(self):
        return len(self.fields)

    def __repr__(self):
        return '%s%s' % (self.kind, list(self.fields))


class Cell:
    __slots__ = ('name', 'val')

    def __init__(self, name, val=None):
        self.name = name
        self.val = val

    def __repr__(self):
        return 'Cell(%s)' % self.name


class Ptr:
    """reference / raw pointer / Box: (cell, path); for slices also a window (start, len)"""
    __slots__ = ('cell', 'path', 'win')

    def __init__(self, cell, path=(), win=None):
        self.cell = cell
        self.path = tuple(path)
        self.win = win

    def __repr__(self):
        return '&%s%s%s' % (self.cell.name, list(self.path), '' if self.win is None else '[%s;%s]' % self.win)


class FnItem:
    __slots__ = ('name',)

    def __init__(self, name):
        self.name = name

    def __repr__(self):
        return 'fn<%s>' % self.name


class Extern:
    """opaque external constant / static we never look into"""
    __slots__ = ('what',)

    def __init__(self, what):
        self.what = what

    def __repr__(self):
        return 'extern<%s>' % self.what


class Model:
    """base for library-model objects; subclasses are immutable and may expose .fields for projection"""
    fields = ()

    def with_field(self, i, v):
        raise NotImplementedError
