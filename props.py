"""Per-property check configuration: which harness units run, with which bounds, per tier."""

COMMON_ASSUMPTIONS = [
    'library models listed under coverage.models_used are the trusted base (tracing level tests = false: logging disabled)',
    'single-threaded execution of the handlers under test (they are &mut self methods driven by one task)',
    'MIR semantics as printed by the pre-installed nightly rustc for /repo\'s current sources with feature "verif"; '
    'overflow checks on, debug assertions off',
    'results are bounded: they say nothing outside coverage.bounds',
]

PROPS = {}


def prop(pid, **kw):
    kw.setdefault('assumptions', [])
    kw['assumptions'] = COMMON_ASSUMPTIONS + kw['assumptions']
    kw.setdefault('level', 'model_checking')
    PROPS[pid] = kw


EXECUTOR_REQUEST = dict(harness='c16_executor_request',
                        covers=['c16x.send-success', 'c16x.assumed-success', 'c16x.read-success', 'c16x.send-failure', 'c16x.read-failure', 'c16x.waiting', 'c16x.pending'],
                        min_paths=100, split=3, params={'quick': {'io_budget': 2}, 'thorough': {'io_budget': 4}}, conform={'quick': 100, 'thorough': 1000}, nvals=16)

MANAGER_STEPS = dict(harness='c05_manager_steps',
                     covers=['dial.ok', 'dial.err', 'dial_address.ok', 'dial_address.err', 'open.opened', 'open.failed', 'dialed.accept',
                             'dialed.failure', 'inbound.accept', 'inbound.admitted', 'closed'],
                     min_paths=1000, split={'quick': 5, 'thorough': 6}, params={'quick': {'steps': 3}, 'thorough': {'steps': 4}},
                     conform={'quick': 60, 'thorough': 500}, nvals=30)

MANAGER_ONESTEP = dict(harness='c05_manager_steps', name='c05_manager_onestep',
                       covers=['arbitrary-start', 'dial.ok', 'dial.err', 'dial_address.ok', 'dial_address.err', 'open.opened', 'open.failed',
                               'dialed.accept', 'dialed.reject', 'dialed.reject.limit', 'dialed.failure', 'inbound.accept', 'inbound.reject',
                               'inbound.reject.limit', 'inbound.admitted', 'inbound.limit', 'closed'],
                       min_paths=5000, split={'quick': 6, 'thorough': 7},
                       params={'quick': {'steps': 1, 'arbitrary_start': 1}, 'thorough': {'steps': 2, 'arbitrary_start': 1}},
                       conform={'quick': 60, 'thorough': 500}, nvals=40)

MANAGER_LOOP = dict(harness='c05_manager_loop',
                    covers=['c05l.dial.accepted', 'c05l.dial.refused', 'c05l.open.opened', 'c05l.open.failed', 'c05l.dial.established', 'c05l.dial.failed',
                            'c05l.inbound.admitted', 'c05l.inbound.established', 'c05l.closed', 'c05l.user.established', 'c05l.user.closed',
                            'c05l.user.dial-failure', 'c05l.user.open-failure', 'c05l.protocol.dial-failure', 'c05l.accept-rollback', 'c05l.negotiate-refused', 'c05l.open.failed-without-errors'],
                    min_paths=1000, split={'quick': 5, 'thorough': 6}, params={'quick': {'steps': 3}, 'thorough': {'steps': 4}},
                    conform={'quick': 60, 'thorough': 500}, nvals=30)

# histories that start with a dial by address to each peer in flight (reaches races between concurrent dials quickly)
MANAGER_LOOP_RACE = dict(MANAGER_LOOP, name='c05_manager_loop_race', covers=['c05l.dial.established', 'c05l.user.established', 'c05l.rejected.outbound-limit'],
                         min_paths=200, split={'quick': 4, 'thorough': 5},
                         params={'quick': {'steps': 2, 'warm_dials': 2}, 'thorough': {'steps': 3, 'warm_dials': 2}})
# C06 / C07 use the same harness for their own checks; the "never silent" ledger belongs to C05
MANAGER_LOOP_NO_LEDGER = dict(MANAGER_LOOP, name='c05_manager_loop_events',
                              params={'quick': {'steps': 3, 'silence_check': 0}, 'thorough': {'steps': 4, 'silence_check': 0}})
MANAGER_LOOP_RACE_NO_LEDGER = dict(MANAGER_LOOP_RACE, name='c05_manager_loop_race_events',
                                   params={'quick': {'steps': 2, 'warm_dials': 2, 'silence_check': 0}, 'thorough': {'steps': 3, 'warm_dials': 2, 'silence_check': 0}})

ADDRESS_SHAPES = dict(harness='c05_address_shapes',
                      covers=['shape.dial_address.accepted', 'shape.dial_address.refused', 'shape.known.stored', 'shape.known.refused'],
                      min_paths=5000, split=4, conform={'quick': 100, 'thorough': 2000}, nvals=8)

prop('C05',
     explanation='Bounded symbolic execution (mirsym: MIR -> z3) of the real transport-manager dial/connection handlers from symbolic '
                 'pre-states; every branch feasibility and every check is an SMT query; counterexamples are replayed on the native build.',
     units=[
         dict(harness='c05_peerstate_closed', covers=['closed.reported', 'closed.silent'], min_paths=5, split=0,
              conform={'quick': 100, 'thorough': 1000}, nvals=12),
         dict(harness='c05_manager_established', covers=['est.accept', 'est.reject'], min_paths=100, split=5,
              conform={'quick': 60, 'thorough': 1000}, nvals=24),
         dict(harness='c05_dial_address', covers=['c05.dial.accepted', 'c05.dial.refused'], min_paths=3, split=0,
              conform={'quick': 60, 'thorough': 500}, nvals=8),
         MANAGER_STEPS,
         MANAGER_ONESTEP,
         MANAGER_LOOP,
         MANAGER_LOOP_RACE,
         ADDRESS_SHAPES,
     ],
     bounds={'peers': 1, 'connection ids': '64-bit symbolic', 'limits': 'None/1/2 per direction', 'steps': 1},
     outside=['TransportManager::next (tokio::select! loop)', 'TCP transport internals (sockets, timers)'],
     )

VARINT_RECEIVE = dict(harness='c04_varint_receive',
                      covers=['c04v.frame', 'c04v.bad-prefix', 'c04v.oversized', 'c04v.eof-in-prefix', 'c04v.eof-in-frame', 'c04v.pending'],
                      min_paths=2000, split=5, params={'quick': {'io_budget': 1}, 'thorough': {'io_budget': 3}},
                      conform={'quick': 200, 'thorough': 3000}, nvals=24)

LENGTH_DELIMITED = dict(harness='c19_length_delimited',
                        covers=['c19l.frame', 'c19l.bad-prefix', 'c19l.eof-in-prefix', 'c19l.eof-in-frame', 'c19l.pending'],
                        min_paths=500, split=4, params={'quick': {'io_budget': 2}, 'thorough': {'io_budget': 4}},
                        conform={'quick': 200, 'thorough': 3000}, nvals=16)

prop('C04',
     explanation='Bounded symbolic execution of the real Substream Stream/Sink implementations over a scripted carrier whose '
                 'chunking, Pending injections and flush answers are solver-chosen; counterexamples replayed natively.',
     units=[
         dict(harness='c04_identity_receive', covers=['c04.frame'], min_paths=1, split=0,
              params={'quick': {'polls': 2}, 'thorough': {'polls': 3}}, conform={'quick': 40, 'thorough': 300}, nvals=12),
         dict(harness='c04_sink_flush', covers=['c04.flush-ready', 'c04.flush-pending'], min_paths=50, split=4,
              params={'quick': {'polls': 3}, 'thorough': {'polls': 4}}, conform={'quick': 60, 'thorough': 500}, nvals=30),
         VARINT_RECEIVE,
         EXECUTOR_REQUEST,
         dict(harness='c04_frame_sequence', covers=['c04q.frame', 'c04q.end', 'c04q.pending'], min_paths=50, split=4,
              params={'quick': {'io_budget': 2}, 'thorough': {'io_budget': 4}}, conform={'quick': 30, 'thorough': 200}, nvals=12),
     ],
     bounds={'send_framed path': 'the Kademlia executor request futures (send_message / send_request_read_response / send_request_eat_response_failure) over a real Substream: 3-byte request, carrier healthy or failing at the 1st..3rd write, remote idle / closing / replying; tokio timeouts never fire',
             'frame sequence': 'three frames: 1/300/70000/131073 bytes, then 0/2/66000 bytes, then 3 bytes; limit 200000 or none; io_budget scripted carrier answers (Pending / 1 byte / half / all)',
             'varint receive': 'max size 0/2/5, 1..11 symbolic header bytes, payload 0..6 bytes',
             'identity payload size': '1,2,32,1024,1025,2048', 'varint message (sink)': '<= 3 bytes', 'polls': 'quick 2-3, thorough 3-4',
             'carrier': 'io_budget scripted answers (Pending / 1 byte / half / all), then ideal'},
     outside=['tcp::Substream pass-through and yamux', 'messages longer than the bounds'],
     )

prop('C15',
     explanation='Bounded model checking of the real iterative-lookup state machines (FindNodeContext incl. the generated U256 arithmetic, '
                 'GetRecordContext, GetProvidersContext) against ledgers, over every schedule of next_action / reply (with solver-chosen '
                 'advertised subsets, records, providers) / failure / time-out events within the step bound.',
     units=[
         dict(harness='c15_find_node', covers=['c15.send', 'c15.response', 'c15.peer-failure', 'c15.timeout', 'c15.succeeded', 'c15.failed', 'c15.wait'],
              min_paths=1000, split={'quick': 8, 'thorough': 9}, params={'quick': {'steps': 4}, 'thorough': {'steps': 5}},
              conform={'quick': 60, 'thorough': 500}, nvals=40),
         dict(harness='c15_find_node_step', covers=['c15s.send', 'c15s.wait', 'c15s.succeeded', 'c15s.failed'], min_paths=1000, split=5,
              conform={'quick': 100, 'thorough': 1000}, nvals=24),
         dict(harness='c15_response_step', covers=['c15x.find-node', 'c15x.get-record', 'c15x.get-providers'], min_paths=1000, split=6,
              params={'quick': {'active_peers': 3}, 'thorough': {'active_peers': 4}}, conform={'quick': 100, 'thorough': 1000}, nvals=24),
         dict(harness='c15_get_record', covers=['c15r.send', 'c15r.response', 'c15r.peer-failure', 'c15r.succeeded', 'c15r.failed', 'c15r.wait'],
              min_paths=1000, split={'quick': 8, 'thorough': 9}, params={'quick': {'steps': 3}, 'thorough': {'steps': 4}},
              conform={'quick': 60, 'thorough': 500}, nvals=40),
         dict(harness='c15_get_providers', covers=['c15p.send', 'c15p.response', 'c15p.peer-failure', 'c15p.succeeded', 'c15p.failed', 'c15p.wait'],
              min_paths=1000, split={'quick': 8, 'thorough': 9}, params={'quick': {'steps': 3}, 'thorough': {'steps': 4}},
              conform={'quick': 60, 'thorough': 500}, nvals=40),
     ],
     bounds={'peers': 3, 'steps': 'find_node: quick 4, thorough 5; get_record/get_providers: quick 3, thorough 4',
             'replication': '1..2 (symbolic)', 'parallelism': '1..2 (symbolic)',
             'distances': 'pairwise distinct, ordered (symmetry reduction), 8-bit'},
     outside=['QueryEngine wiring', 'network I/O', 'more than 3 peers, lookups longer than the step bound'],
     )

prop('C16',
     explanation='Bounded model checking of the real PutToTargetPeersContext against a ledger for every event sequence, and of the dial ledger of the '
                 'real Kademlia event-loop handlers (on_query_action, open_substream_or_dial, on_dial_failure with the real query engine, routing '
                 'table and transport service underneath): lookups whose peers must first be dialed and whose dials fail.',
     units=[
         dict(harness='c16_put_to_targets', covers=['c16.succeeded', 'c16.failed'], min_paths=1000, split=7,
              params={'quick': {'steps': 3}, 'thorough': {'steps': 4}}, conform={'quick': 60, 'thorough': 500}, nvals=30),
         EXECUTOR_REQUEST,
         dict(harness='c16_dial_ledger', covers=['c16k.started', 'c16k.put-started', 'c16k.dial-failure', 'c16k.quiescent'], min_paths=20, split=3,
              params={'quick': {'steps': 2}, 'thorough': {'steps': 3}}, conform={'quick': 60, 'thorough': 500}, nvals=16),
     ],
     bounds={'peer universe': 3, 'targets': '<= 3 with duplicates', 'events': 'quick 3, thorough 4',
             'dial ledger': '1..2 known unconnected peers plus optionally one peer known only under an address no transport can dial; quick 2 / thorough 3 events of start FIND_NODE / PUT_VALUE to any subset of the peers (quorum One/All) / dial failure, then all dials fail'},
     outside=['the remaining fault placements of Kademlia::run (substream I/O, executor time-outs, disconnects midway, put/provider send phases through real substreams)'],
     )

prop('C17',
     explanation='Differential bounded model checking of the real MemoryStore against a reference store written in the harness.',
     units=[
         dict(harness='c17_store_records', covers=['c17.put', 'c17.get'], min_paths=500, split=6,
              params={'quick': {'steps': 3}, 'thorough': {'steps': 3}}, conform={'quick': 60, 'thorough': 500}, nvals=30),
         dict(harness='c17_store_providers', covers=['c17p.put', 'c17p.put-local', 'c17p.get', 'c17p.expire'], min_paths=1000, split=5,
              params={'quick': {'steps': 2}, 'thorough': {'steps': 3, 'all_address_counts': 1}}, conform={'quick': 60, 'thorough': 500}, nvals=30),
         dict(harness='c17_store_providers', name='c17_store_providers_onestep',
              covers=['c17p.arbitrary-start', 'c17p.put', 'c17p.put-local', 'c17p.remove-local', 'c17p.get', 'c17p.expire'], min_paths=1000, split=6,
              params={'quick': {'steps': 1, 'arbitrary_start': 1}, 'thorough': {'steps': 2, 'arbitrary_start': 1, 'all_address_counts': 1}},
              conform={'quick': 100, 'thorough': 500}, nvals=40),
     ],
     bounds={'ops': 'records: 3 (both tiers; thorough adds conformance vectors); providers: quick 2, thorough 3', 'keys': 2, 'max_records': '0..2', 'value length': '<= 64 symbolic',
             'provider keys bound': '0..2', 'providers per key bound': '1..2 (histories), 1 or 3 (one-step)', 'addresses per provider bound': '0..2', 'providers': '3 remote + the local node',
             'one-step pre-state': 'one key with any distance-sorted subset of the 4 providers within the bound, uniformly fresh or expired'},
     outside=['provider refresh timer stream'],
     )

prop('C19',
     explanation='Symbolic execution of the real decoders on byte strings whose length and every byte are solver variables; every MIR '
                 'assert / index / unwrap / panic site on the path is a verification condition.',
     units=[
         dict(harness='c19_multistream_decode', covers=['c19.accepted', 'c19.rejected'], min_paths=30, split=5,
              params={'quick': {'max_len': 8}, 'thorough': {'max_len': 12}}, conform={'quick': 100, 'thorough': 1000}, nvals=16),
         VARINT_RECEIVE,
         LENGTH_DELIMITED,
         dict(harness='c18_from_bytes', covers=['c18.bytes.accepted', 'c18.bytes.rejected'], min_paths=300, split=3, conform={'quick': 200, 'thorough': 3000}, nvals=8),
         dict(harness='c20_block_cid', covers=['c20.delivered', 'c20.dropped'], min_paths=1000, split=6, conform={'quick': 100, 'thorough': 2000}, nvals=10),
         dict(harness='c19_kademlia_message', covers=['c19k.roundtrip', 'c19k.damaged.accepted', 'c19k.damaged.rejected'], min_paths=200, split=2,
              params={'quick': {'real_kad_messages': 1}, 'thorough': {'real_kad_messages': 1}}, conform={'quick': 200, 'thorough': 2000}, nvals=8),
         dict(harness='c20_message_received', covers=['c20m.blocks-reported', 'c20m.nothing-acceptable', 'c20m.some-block-dropped'], min_paths=100, split=3,
              conform={'quick': 100, 'thorough': 1000}, nvals=10),
     ],
     bounds={'input length': 'quick <= 8 bytes, thorough <= 12 bytes'},
     outside=['prost wire-format decoding (library)', 'Multiaddr byte parsing (library)'],
     )

prop('C20',
     explanation='Symbolic execution of the real receive-side block conversion (prefix parser, hash selection, CID construction) over structured '
                 'and damaged prefixes with solver-chosen 64-bit fields, and of the real batching step with solver-chosen block sizes and batch limit, '
                 'each against a reference in the harness.',
     units=[
         dict(harness='c20_batching', covers=['c20.batch'], min_paths=10, split=0,
              conform={'quick': 100, 'thorough': 1000}, nvals=12),
         dict(harness='c20_block_cid', covers=['c20.delivered', 'c20.dropped'], min_paths=1000, split=6,
              conform={'quick': 100, 'thorough': 2000}, nvals=10),
         dict(harness='c20_message_received', covers=['c20m.blocks-reported', 'c20m.nothing-acceptable', 'c20m.some-block-dropped'], min_paths=100, split=3,
              conform={'quick': 100, 'thorough': 1000}, nvals=10),
         dict(harness='c20_send_response', covers=['c20s.sent', 'c20s.mixed', 'c20s.suspended'], min_paths=50, split=3,
              params={'quick': {'io_budget': 1}, 'thorough': {'io_budget': 3}}, conform={'quick': 100, 'thorough': 1000}, nvals=12),
     ],
     bounds={'blocks': '1..3', 'block size': '<= 2^23 symbolic', 'batch limit': '<= 2^22 symbolic',
             'prefix': '4 varints (version 0..2, codec/hash type 64-bit symbolic, advertised length 0..256) + junk/truncation', 'block data': '3 concrete bytes'},
     outside=['hash functions', 'prost encoded_len'],
     )

prop('C10',
     explanation='Symbolic execution of the real AddressStore (insert from an arbitrary store at any capacity, addresses(limit)) against a '
                 'reference model, and of add_known_address / dial / dial_address over every structured multiaddress of up to 5 components.',
     units=[
         dict(harness='c10_store_insert', covers=['c10.insert.existing', 'c10.insert.room', 'c10.insert.full.dropped', 'c10.insert.full.displaced'],
              min_paths=1000, split=5, conform={'quick': 100, 'thorough': 2000}, nvals=16),
         dict(harness='c10_store_addresses', covers=['c10.addresses'], min_paths=200, split=4, conform={'quick': 100, 'thorough': 2000}, nvals=12),
         ADDRESS_SHAPES,
     ],
     bounds={'store capacity': '1..3 (code is parametric in max_capacity; AddressStore::new() uses 64)', 'address universe': 5,
             'scores': '32-bit symbolic for stored records', 'address shapes': '<= 5 components from a 11 x 9^4 alphabet'},
     outside=['byte-level multiaddr parsing', 'DNS resolution', 'websocket/quic address forms (features off)'],
     )

prop('C06',
     explanation='Bounded model checking of the real ConnectionLimits / PeerState / transport-manager handlers against a ledger of live '
                 'connections: every k-step history from a fresh manager and every single step from an arbitrary invariant-satisfying state.',
     units=[MANAGER_STEPS, MANAGER_ONESTEP, MANAGER_LOOP_NO_LEDGER, MANAGER_LOOP_RACE_NO_LEDGER],
     bounds={'peers': 2, 'limits': 'inbound None/0/1, outbound None/1/2', 'history steps': 'quick 3, thorough 4', 'one-step': 'quick 1, thorough 2 steps from an arbitrary state',
             'ghost connections of unmodelled peers': 'inbound 0..1, outbound 0..2'},
     outside=['accept_pending/reject_pending socket handling inside the transports', 'TransportManager::next glue (replicated in the harness)'],
     )

prop('C14',
     explanation='Bounded model checking of the real RoutingTable / KBucket / ClosestBucketsIter code (keys are the real SHA-256 of the peer ids, '
                 'computed exactly by the hash model) against a brute-force reference: update histories over peers in several buckets followed by '
                 'closest() lookups, and a full 20-peer bucket under re-adds, connections and overflow.',
     units=[
         dict(harness='c14_table_ops', covers=['c14.add', 'c14.established', 'c14.dial-failure', 'c14.add-local', 'c14.closest'], min_paths=500,
              split={'quick': 3, 'thorough': 3}, params={'quick': {'steps': 2}, 'thorough': {'steps': 2}}, conform={'quick': 40, 'thorough': 300}, nvals=16,
              time_cap={'quick': 1500, 'thorough': 14000}),
         dict(harness='c14_bucket_full', covers=['c14.full.readd', 'c14.full.connect', 'c14.full.displace', 'c14.full.noslot'], min_paths=100,
              split={'quick': 3, 'thorough': 4}, params={'quick': {'steps': 2}, 'thorough': {'steps': 3}}, conform={'quick': 40, 'thorough': 300}, nvals=16,
              time_cap={'quick': 1500, 'thorough': 14000}),
     ],
     assumptions=['A-SHA: no stored key is at XOR distance < 2 from the local key (bucket 0 is empty); with crafted keys ClosestBucketsIter visits bucket 0 twice',
                  'PeerId::random() (placeholder of a vacant slot) returns an id different from all harness ids'],
     bounds={'peer pool': '4 ids over buckets 255/255/254/250 (table ops); 22 ids of bucket 255 (full bucket)', 'steps': 'table ops: 2 (both tiers; three steps took 2.7 h and were dropped from the registered tier); full bucket: quick 2, thorough 3',
             'closest targets': 'a stored key, a foreign key, the local key; k in 1..2 and 8/30'},
     outside=['all 2^256 targets / all bucket indices (only the concrete targets above are walked)', 'KademliaPeer::push_addresses address bounds'],
     )

prop('C18',
     explanation='Differential symbolic execution: litep2p PeerId parsing/derivation against the reference libp2p-identity implementation '
                 '(interpreted from that crate\'s own MIR dump) on multihash records with solver-chosen code and digest bytes and every boundary '
                 'length, on peer-id byte strings with symbolic header bytes, and on key blobs of every boundary length; round trips through bytes, '
                 'Vec<u8> and multiaddress components, whose infallible conversion is a verification condition.',
     units=[
         dict(harness='c18_multihash', covers=['c18.accepted', 'c18.rejected'], min_paths=30, split=0, conform={'quick': 200, 'thorough': 3000}, nvals=8),
         dict(harness='c18_key_blob', covers=['c18.inline', 'c18.hashed'], min_paths=8, split=0, conform={'quick': 50, 'thorough': 200}, nvals=4),
         dict(harness='c18_from_bytes', covers=['c18.bytes.accepted', 'c18.bytes.rejected'], min_paths=300, split=3, conform={'quick': 200, 'thorough': 3000}, nvals=8),
     ],
     bounds={'multihash code': '64-bit symbolic', 'digest length': '0,1,31,32,41,42,43,63,64', 'digest bytes': 'first and last symbolic, rest zero',
             'key blob length': '0,1,36,41,42,43,44,100', 'byte strings': '1-2 symbolic code bytes + symbolic size byte + digest + optional trailing byte'},
     outside=['base58 text form (bs58 library)', 'serde visitor plumbing', 'ed25519 key validity', 'the SHA-256 function itself (exact for concrete inputs)'],
     assumptions=['multihash::Multihash::{wrap,from_bytes,to_bytes} are modelled (header varints decoded by the real unsigned-varint code)'],
     )

prop('C03',
     explanation='Symbolic execution of the real multistream-select code: the message codec on fully symbolic byte strings, the length-delimited '
                 'framing on symbolic prefixes, the real DialerSelectFuture and ListenerSelectFuture negotiating over an in-memory link whose '
                 'fragmentation / Pending / flush answers are solver-chosen (both versions) followed by a payload written right after, and '
                 'complete exchanges of the message-based (WebRTC) variant for every preference list and listener set.',
     units=[
         dict(harness='c19_multistream_decode', covers=['c19.accepted', 'c19.rejected'], min_paths=30, split=5,
              params={'quick': {'max_len': 8}, 'thorough': {'max_len': 12}}, conform={'quick': 100, 'thorough': 1000}, nvals=16),
         LENGTH_DELIMITED,
         dict(harness='c03_stream_negotiation', covers=['c03s.agreed', 'c03s.both-failed'], min_paths=500, split=6,
              params={'quick': {'io_budget': 4}, 'thorough': {'io_budget': 6}}, conform={'quick': 200, 'thorough': 2000}, nvals=24),
         dict(harness='c03_webrtc_negotiation', covers=['c03m.accepted', 'c03m.rejected', 'c03m.exhausted', 'c03m.pending-protocol'], min_paths=200, split=3,
              conform={'quick': 100, 'thorough': 1000}, nvals=12),
     ],
     bounds={'stream variant': 'dialer list 1..2 of 3 names, listener set <= 2 names, V1 and V1Lazy, io_budget scripted carrier answers (quick 4, thorough 6), 2 payload bytes',
             'dialer list': 'main + 0..3 fallbacks', 'listener set': 'any subset of 4 names, two orders', 'names': '2-byte names',
             'codec input': 'quick <= 8, thorough <= 12 symbolic bytes'},
     outside=['interoperability with the reference libp2p implementation', 'fallback->main mapping in protocol_set.rs', 'long names / lists'],
     )

prop('C01',
     explanation='Symbolic execution of the real identity check of the Noise handshake (parse_and_verify_peer_id, RemotePublicKey parsing, '
                 'PeerId derivation) under a perfect-cryptography model of ed25519: keys are fresh atoms, a signature is an unforgeable token '
                 'bound to (key, message), the session and signed DH keys have solver-chosen bytes.',
     units=[
         dict(harness='c01_identity_binding', covers=['c01.authenticated', 'c01.refused'], min_paths=15, split=0, conform={'quick': 200, 'thorough': 2000}, nvals=6),
     ],
     assumptions=['perfect cryptography: ed25519 signatures cannot be forged, distinct generated keys differ, every 32-byte string parses as a key',
                  'the key protobuf is decoded exactly for concrete bytes (two fields)'],
     bounds={'identity': 'absent / key A / truncated key A / key B', 'signature': 'absent / by A / by B / forged bytes / by A without the domain prefix',
             'DH keys': '32 bytes, first byte symbolic for the session key and for the signed key'},
     outside=['the Noise XX cryptography (snow, AEAD), byte corruption/truncation of the three handshake messages, stream fragmentation',
              'the role-specific flow of handshake() (async, over snow): that BOTH roles reach this check is read, not encoded',
              'the dialed-peer comparison in tcp::connection::negotiate_connection (async)', 'ed25519 strictness (small-order keys, malleability)'],
     )

prop('C13',
     explanation='Bounded model checking of the request ledger kernel of the real RequestResponseProtocol (on_send_request, on_connection_established, '
                 'on_connection_closed, on_dial_failure, on_substream_open_failure with the real TransportService / ConnectionHandle underneath) '
                 'against a ledger of accepted requests and reported outcomes.',
     units=[
         dict(harness='c13_request_ledger', covers=['c13.accepted', 'c13.refused', 'c13.connected', 'c13.disconnected', 'c13.dial-failure', 'c13.open-failure'],
              min_paths=100, split=4, params={'quick': {'steps': 4}, 'thorough': {'steps': 6}}, conform={'quick': 200, 'thorough': 2000}, nvals=16),
         dict(harness='c13_inbound_bound', covers=['c13i.admitted', 'c13i.refused'], min_paths=16, split=0,
              params={'quick': {'steps': 4}, 'thorough': {'steps': 6}}, conform={'quick': 100, 'thorough': 1000}, nvals=10),
         dict(harness='c13_request_flight', covers=['c13f.opened', 'c13f.request-future-finished', 'c13f.disconnected', 'c13f.reconnected', 'c13f.cancel', 'c13f.failed', 'c13f.response'],
              min_paths=200, split=4, params={'quick': {'steps': 4, 'io_budget': 1, 'fifo_futures': 1}, 'thorough': {'steps': 5, 'io_budget': 2, 'fifo_futures': 1}}, conform={'quick': 200, 'thorough': 2000}, nvals=24),
     ],
     assumptions=['tokio mpsc channels are modelled as bounded FIFOs that are never full in these scenarios; Sender::send resolves on first poll',
                  'request futures: tokio timers never fire within the explored window (time-outs are outside the claim); a cancel is only issued while no reply is on its way, '
                  'because the request future chooses among several ready select! branches at random, which a replay could not reproduce'],
     bounds={'peers': 1, 'events': 'quick 4, thorough 6 of send(dial/no dial) / connect / disconnect / dial failure / substream-open failure',
             'requests in flight': 'two accepted requests on a connected peer, then quick 4 / thorough 5 events of substream opened (remote replies / idle / closes, carrier healthy or failing at the 1st-2nd write) / poll the request futures / disconnect / reconnect / cancel',
             'inbound bound': 'limit 1..2, 2 connected peers, quick 4 / thorough 6 inbound substreams, none of them read yet'},
     outside=['time-outs (tokio timers), reading and answering inbound requests',
              'several peers', 'the run() select loop'],
     )

CLOSED_REPORT = dict(harness='c07_closed_report', covers=['c07.completed', 'c07.blocked'], min_paths=27, split=0,
                     conform={'quick': 100, 'thorough': 1000}, nvals=6)

prop('C07',
     explanation='Symbolic execution of the real ProtocolSet::report_connection_closed (a lowered async fn over FuturesUnordered and tokio channels) '
                 'for every combination of running / shut-down / busy protocols and every order in which the concurrent sends complete.',
     units=[CLOSED_REPORT, MANAGER_LOOP_NO_LEDGER, MANAGER_LOOP_RACE_NO_LEDGER],
     assumptions=['tokio mpsc channels are bounded FIFOs; dropping a Receiver closes the channel; FuturesUnordered yields ready futures in a solver-chosen order',
                  'one poll of the report future (a blocked report is examined at the point where it blocks)'],
     bounds={'protocols': 3, 'protocol states': 'running / receiver dropped / channel full', 'polls': 1},
     outside=['which exit paths of the per-connection task reach report_connection_closed (TcpConnection::start select loop, yamux, timers)',
              'the manager side (C05/C06 handlers) and the application-level closed event', 'repeated connect/disconnect cycles across tasks'],
     )

prop('C08',
     explanation='Bounded model checking of the real TransportService handlers (on_connection_established, on_connection_closed, open_substream '
                 'with the real ConnectionHandle / ConnectionContext underneath) against a reference of the announced connections per peer.',
     units=[
         dict(harness='c08_service_events', covers=['c08.established', 'c08.secondary', 'c08.closed', 'c08.one-of-two-closed', 'c08.open.accepted', 'c08.open.refused', 'c08.downgraded'],
              min_paths=200, split=4, params={'quick': {'steps': 5}, 'thorough': {'steps': 7}}, conform={'quick': 200, 'thorough': 2000}, nvals=24),
         CLOSED_REPORT,
     ],
     assumptions=['environment: the manager announces at most two live connections per peer and closes only announced ones (the conclusion of C06)',
                  'tokio mpsc channels modelled as bounded FIFOs; keep-alive timers are not modelled (KeepAliveTracker futures are inert)'],
     bounds={'peers': 2, 'events': 'quick 5, thorough 7 of connection announced / closed (either of two) / open_substream'},
     outside=['delivery of the events through ProtocolSet and the per-connection task (report_connection_established/closed, channel back-pressure)',
              'answering a substream request exactly once unless the connection terminates (connection task)', 'keep-alive downgrades (timers)',
              'ordering between protocols and the manager (cross-task)'],
     )

prop('C09',
     explanation='Bounded symbolic execution of the real KeepAliveTracker and the TransportService code around it (connection established / closed, open_substream, the poll '
                 'loop that downgrades idle connections) on a harness-driven virtual clock, against a reference of the last keep-alive activity per connection.',
     units=[
         dict(harness='c09_keep_alive', covers=['c09.established', 'c09.time-passes', 'c09.substream-requested', 'c09.substream-opened', 'c09.polled', 'c09.downgraded', 'c09.closed'],
              min_paths=1000, split={'quick': 4, 'thorough': 5}, params={'quick': {'steps': 5, 'fifo_futures': 1}, 'thorough': {'steps': 6, 'fifo_futures': 1}}, conform={'quick': 200, 'thorough': 2000}, nvals=24),
     ],
     assumptions=['time is the virtual clock of litep2p::verif_clock (feature `verif`): under the feature the tracker reads that clock and sleeps on it instead of std::time::Instant / tokio::time::sleep - two lines of production code differ',
                  'the connection stays open while this protocol\'s handle is downgraded (the kernel connection holds a second strong sender, like another protocol would); '
                  'whether the connection task really ends when the last strong sender is gone is a cross-task matter outside the claim'],
     bounds={'timeout': '2..3 ticks of 100 ms', 'events': 'quick 5, thorough 6 of establish (<= 2 connections of one peer) / 1..2 ticks pass / the protocol requests a substream / the remote opens a substream of the protocol / the service is polled / a connection closes',
             'protocol class': 'keep-alive (notifications, request-response, Kademlia, Bitswap, user protocols) or not (ping, identify)'},
     outside=['the real clock and timer wheel', 'substreams that exist (their permits keep the connection open in the connection task): only substream requests are events here',
              'the connection task closing the connection once every protocol has downgraded it'],
     )

prop('C11',
     explanation='Bounded symbolic execution of one endpoint\'s real notification protocol: NotificationProtocol::next_event (a biased tokio::select! over the handshake service, '
                 'stream shutdown reports, timers, transport events, validation results and user commands) with every handler behind it, the real NotificationHandle on the user\'s side, '
                 'the real HandshakeService over real Substreams whose remote ends are scripted, and the per-stream Connection tasks collected by a harness executor; the user-visible '
                 'event grammar is checked after every step.',
     units=[
         dict(harness='c11_notification_protocol', covers=['c11.connected', 'c11.disconnected', 'c11.user.open', 'c11.user.close', 'c11.outbound.opened', 'c11.outbound.failed', 'c11.inbound.opened',
                                                           'c11.event.validate', 'c11.user.accept', 'c11.user.reject', 'c11.event.open-failure', 'c11.probe'],
              min_paths=1000, split={'quick': 5, 'thorough': 7}, params={'quick': {'steps': 4, 'io_budget': 0, 'fifo_futures': 1}, 'thorough': {'steps': 5, 'io_budget': 0, 'fifo_futures': 1}},
              conform={'quick': 100, 'thorough': 1000}, nvals=40),
         dict(harness='c11_notification_protocol', name='c11_notification_open', covers=['c11.event.opened', 'c11.event.closed', 'c11.outbound.opened', 'c11.inbound.opened', 'c11.event.notification'],
              min_paths=100, split={'quick': 4, 'thorough': 6}, params={'quick': {'steps': 3, 'warm': 4, 'io_budget': 0, 'fifo_futures': 1}, 'thorough': {'steps': 4, 'warm': 4, 'io_budget': 0, 'fifo_futures': 1}},
              conform={'quick': 100, 'thorough': 1000}, nvals=40),
         dict(harness='c11_notification_protocol', name='c11_notification_reopen', covers=['c11.event.opened', 'c11.race.stale-stream-task'],
              min_paths=4, split=0, params={'quick': {'steps': 1, 'warm': 8, 'io_budget': 0, 'fifo_futures': 1}, 'thorough': {'steps': 2, 'warm': 8, 'io_budget': 0, 'fifo_futures': 1}},
              conform={'quick': 50, 'thorough': 300}, nvals=40),
     ],
     assumptions=['one remote peer, one connection at a time; the remote is scripted through its substreams (sends its handshake and stays, or closes)',
                  'timers (10 s negotiation / open time-outs) never fire within the explored window',
                  'tokio mpsc / oneshot models; FuturesUnordered serves ready futures in the real implementation\'s FIFO order; the biased select! polls its branches in source order (as the real macro does)'],
     bounds={'events': 'from a fresh protocol: quick 4, thorough 5; after a forced opening sequence (connect, user open, remote answers the handshake, remote opens its substream): quick 3, thorough 4; of connect / disconnect / user open / user close / answer the pending substream request (fails, remote handshakes, remote closes) / remote opens an inbound substream (closes at once / handshakes and stays / handshakes, sends one notification and closes or stays) / user validation answer / poll stream tasks; then the connection is lost and everything is polled',
             'carrier': 'ideal (io_budget 0): chunking and Pending of the substream carriers are exercised by C04/C12'},
     outside=['two real endpoints talking to each other (the remote is scripted)', 'several peers and simultaneous connections', 'time-outs', 'notification traffic beyond the single notification the scripted remote may send (C12 covers the stream task)'],
     )

prop('C12',
     explanation='Bounded symbolic execution of the real per-stream notification task (notification::Connection::start and its Stream::poll_next, '
                 'including the tokio::select! over the two send queues, PollSender reservation towards the user, the shutdown oneshot) together with the '
                 'user-side NotificationSink, between two real Substreams over scripted carriers; the wire and the user channel are compared with a ledger '
                 'of accepted / sent notifications after every step.',
     units=[
         dict(harness='c12_notification_stream', covers=['c12.sync.accepted', 'c12.sync.clogged', 'c12.async.accepted', 'c12.async.waits', 'c12.async.accepted-after-waiting',
                                                         'c12.user.received', 'c12.task-finished', 'c12.closed', 'c12.open', 'c12.shutdown-requested'],
              min_paths=1000, split={'quick': 6, 'thorough': 7},
              params={'quick': {'steps': 3, 'write_budget': 1, 'read_budget': 1}, 'thorough': {'steps': 4, 'write_budget': 1, 'read_budget': 2}},
              conform={'quick': 100, 'thorough': 1000}, nvals=40),
         dict(harness='c12_notification_stream', name='c12_notification_stream_big', covers=['c12.sync.accepted', 'c12.async.accepted', 'c12.open'],
              min_paths=100, split={'quick': 5, 'thorough': 6},
              params={'quick': {'steps': 3, 'write_budget': 2, 'read_budget': 0, 'big': 1}, 'thorough': {'steps': 4, 'write_budget': 3, 'read_budget': 0, 'big': 1}},
              conform={'quick': 20, 'thorough': 100}, nvals=30),
     ],
     assumptions=['one sending mode per run (the property speaks of order within one mode; the tokio::select! branch order between the two send queues is fixed per run)',
                  'tokio mpsc / oneshot / PollSender modelled as bounded FIFOs with reservation; sender reference counts are not modelled (the sink lives as long as the run)',
                  'the executor polls the task and the user reads whenever the schedule says so; after the scripted steps a quiet tail of 12 polls/reads lets the stream settle'],
     bounds={'notifications sent': 'quick <= 3, thorough <= 4 of 1..2 bytes; in the `big` unit of 70000/70001 bytes (above the sink\'s 64 KiB back-pressure boundary), no inbound traffic', 'inbound': '0 or 2 frames, optionally followed by one frame beyond the maximum (3 bytes), remote closes or stays idle',
             'send queue': '1..2 slots', 'user queue': '1..2 slots', 'carrier': 'write_budget / read_budget scripted answers (Pending / 1 byte / all; flush Pending), then ideal'},
     outside=['the notification protocol state machine that opens / validates / closes streams (C11)', 'delivery across the network: yamux windows, the remote endpoint\'s task',
              'reopen cycles (each open period has its own Connection task)', 'maximum notification size beyond the codec limit check on the inbound side (C04 covers the codec)'],
     )

prop('C02',
     explanation='Bounded model checking of the real NoiseSocket poll_read / poll_write / poll_flush (frame length arithmetic, read-ahead buffer, '
                 'write buffer, 0/1-byte carry-over) between two ends of an established session over an in-memory link with scripted '
                 'fragmentation, with the cipher replaced by a length/tag/nonce-faithful stub: the bytes read equal the bytes written.',
     units=[
         dict(harness='c02_noise_stream', name='c02_noise_stream_small', covers=['c02.read', 'c02.delivered', 'c02.read-pending'], min_paths=100, split=5,
              params={'quick': {'write_budget': 1, 'read_budget': 2}, 'thorough': {'write_budget': 2, 'read_budget': 3}}, conform={'quick': 100, 'thorough': 500}, nvals=20),
         dict(harness='c02_noise_stream', name='c02_noise_stream_frames', covers=['c02.read', 'c02.delivered'], min_paths=50, split=4,
              params={'quick': {'write_budget': 1, 'read_budget': 0, 'big_frames': 1}, 'thorough': {'write_budget': 2, 'read_budget': 1, 'big_frames': 1}}, conform={'quick': 20, 'thorough': 100}, nvals=20,
              time_cap={'quick': 1500, 'thorough': 14000}),
         dict(harness='c02_noise_attacks', covers=['c02a.data', 'c02a.error'], min_paths=8, split=0, conform={'quick': 50, 'thorough': 200}, nvals=4),
     ],
     assumptions=['cipher stub: ciphertext = plaintext || 16-byte tag (direction, nonce); snow length limit 65535; tag and nonce are checked on decryption; '
                  'integrity of the payload bytes against tampering is the AEAD\'s guarantee and not modelled',
                  'the two cipher states come from a completed handshake (natively: a real in-memory Noise XX handshake)'],
     bounds={'write sizes': '1, 2, 300 (+0/1/300) and 65519, 65520, 65521, 65536, 131040 (+0/1)', 'reader buffers': '1, 7, 300 / 16384, 65520, 70000',
             'read-ahead frames': '1..2', 'write buffer frames': '1..2', 'carrier': 'write_budget scripted answers to the writer (Pending / 1 byte / all; flush Pending) and read_budget scripted answers to the reader when data is available (Pending / 1 byte / 2 bytes / all), then ideal'},
     outside=['detection of altered *payload* bytes (AEAD guarantee; the attack unit damages only length prefixes and tags, truncates, drops, replays, reorders)', 'the handshake itself (C01)',
              'payload contents other than the fixed position pattern'],
     )
