#!/bin/sh
# usage: run_all.sh <tier>  -- runs every claimed check in the given tier, prints one summary line per property
TIER="${1:-quick}"
cd "$(dirname "$0")"
# VERIF_PROPS="C09 C11 .." restricts / orders the run; default: every claimed check in MANIFEST order
PROPS="${VERIF_PROPS:-$(python3 -c "import json; print(' '.join(c['property_id'] for c in json.load(open('MANIFEST.json'))['checks']))")}"
for p in $PROPS; do
  S=$(date +%s)
  ./check $p --tier $TIER > /tmp/run_all.$p.$TIER.log 2>&1
  RC=$?
  E=$(date +%s)
  echo "$p tier=$TIER exit=$RC wall=$((E-S))s $(grep -c VIOLATION /tmp/run_all.$p.$TIER.log) violation-lines"
  grep -E "INCONCLUSIVE|ENGINE" /tmp/run_all.$p.$TIER.log | cut -c1-300 | head -3
done
