#!/bin/sh
# usage: seedtest.sh <patch.diff> <property> [tier] -- applies a seeded change to /repo, runs the property's check, restores /repo
P="$1"; PROP="$2"; TIER="${3:-quick}"
cd /repo || exit 9
if [ -n "$(git status --porcelain --untracked-files=no)" ]; then echo "/repo not clean"; exit 9; fi
git apply "$P" || { echo "patch does not apply"; exit 9; }
cd /verif
./check "$PROP" --tier "$TIER" > /tmp/seedtest.$$.log 2>&1
RC=$?
git -C /repo checkout -- .
grep -E "VIOLATION|KNOWN-FINDING|INCONCLUSIVE|PASS|ENGINE|harness=" /tmp/seedtest.$$.log | cut -c1-400 | head -20
rm -f /tmp/seedtest.$$.log
# evidence files were rewritten by the run on the mutated tree: restore the committed ones
git -C /verif checkout -- evidence 2>/dev/null
echo "exit=$RC"
