#!/bin/sh
# Builds everything the checks need from files on disk (offline): MIR / rustdoc dumps of /repo's current tree,
# the harness crate's MIR and the native replay binaries. Idempotent; results are cached under /verif/.cache.
set -e
cd "$(dirname "$0")"
export CARGO_NET_OFFLINE=true
python3-vt -c "
import sys
sys.path.insert(0, '.')
from mirsym import build
r = build.ensure(need_native='release')
print('setup ok', r['repo_hash'], r['harness_hash'], r['times'])
"
