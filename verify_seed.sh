#!/bin/bash
# usage: verify_seed.sh <seed-dir> <seed-id>   (seed-dir holds patch.diff, demo.diff)
# Confirms in a scratch worktree: (1) full baseline passes with the patch, (2) demo fails with the patch, (3) demo passes without.
D="$1"; ID="$2"; WT=/tmp/wt-verify; LOG=/tmp/seedverify/$ID.log
mkdir -p /tmp/seedverify
exec > "$LOG" 2>&1
[ -d $WT ] || git -C /repo worktree add --detach $WT HEAD
cd $WT || exit 9
git checkout -q --detach $(git -C /repo rev-parse HEAD); git checkout -q -- . ; git clean -fdq src tests
export CARGO_NET_OFFLINE=true
git apply "$D/patch.diff" || { echo "RESULT patch-does-not-apply"; exit 1; }
cargo check --offline --features verif 2>&1 | tail -1
cargo nextest run --workspace --no-fail-fast --tool-config-file pb:/w/lib/nextest.toml --profile pb --test-threads 8 --offline 2>&1 | tail -5 > /tmp/seedverify/$ID.baseline
cat /tmp/seedverify/$ID.baseline
if grep -q "420 passed" /tmp/seedverify/$ID.baseline; then echo "STEP1 baseline-passes-with-patch"; else echo "RESULT baseline-fails-with-patch"; git checkout -q -- .; git clean -fdq src tests; exit 1; fi
git apply "$D/demo.diff" || { echo "RESULT demo-does-not-apply"; git checkout -q -- .; git clean -fdq src tests; exit 1; }
TESTS=$(grep -E "^\+\s*(async )?fn [a-z0-9_]+\(\)" "$D/demo.diff" | sed -E 's/.*fn ([a-z0-9_]+)\(\).*/\1/' | sort -u)
echo "demo tests: $TESTS"
FAILS=0; 
for t in $TESTS; do cargo nextest run --offline --no-fail-fast $t 2>&1 | grep -E "^\s+(PASS|FAIL)|Summary" | tail -3 > /tmp/seedverify/$ID.with; cat /tmp/seedverify/$ID.with; grep -q FAIL /tmp/seedverify/$ID.with && FAILS=1; done
[ $FAILS = 1 ] && echo "STEP2 demo-fails-with-patch" || { echo "RESULT demo-does-not-fail-with-patch"; git checkout -q -- .; git clean -fdq src tests; exit 1; }
git apply -R "$D/patch.diff"
OK=1
for t in $TESTS; do cargo nextest run --offline --no-fail-fast $t 2>&1 | grep -E "^\s+(PASS|FAIL)|Summary" | tail -3 > /tmp/seedverify/$ID.without; cat /tmp/seedverify/$ID.without; grep -q FAIL /tmp/seedverify/$ID.without && OK=0; done
git checkout -q -- .; git clean -fdq src tests
[ $OK = 1 ] && echo "RESULT confirmed" || echo "RESULT demo-fails-without-patch"
